import Props.C17f
#print axioms C17.lightness
#print axioms C17.black_white
#print axioms C17.maxmin
#print axioms C17.saturation_range
#print axioms C17.hue_range
#print axioms C17.saturation_accurate
#print axioms C17.l_le_max
#print axioms C17.hue_accurate
#print axioms C17.hsl_roundtrip
#print axioms C17.api_hsl_roundtrip
#print axioms C17.chroma_back
#print axioms C17.hue_back
#print axioms C17.dec_sel
