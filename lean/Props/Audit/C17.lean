import Props.C17b
#print axioms C17.lightness
#print axioms C17.black_white
#print axioms C17.maxmin
#print axioms C17.saturation_range
#print axioms C17.hue_range
#print axioms C17.saturation_accurate
#print axioms C17.l_le_max
#print axioms C17.hue_accurate
