import Props.C18
#print axioms C18.toI32_ok
#print axioms C18.clamp_range
#print axioms C18.exp2_total
#print axioms C18.powf_total
#print axioms C18.expf_total
#print axioms C18.curve_total
#print axioms C18.cbrtf_accurate
#print axioms C18.powf_accurate
#print axioms C18.expf_accurate
#print axioms C18.exp2_accurate
#print axioms C18.log2_accurate
#print axioms C18.expf_underflow
#print axioms C18.expf_overflow
#print axioms C18.cbrtf_odd
