import Props.C05
#print axioms C05.roundtrip
#print axioms C05.mat_id
#print axioms C05.bc_eq
#print axioms C05.inv_chan
#print axioms C05.recombine
#print axioms C05.api_roundtrip
