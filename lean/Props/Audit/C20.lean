import Props.C20
import Props.C20b
import Props.C20c
import Props.C20d
import Props.C20e
#print axioms C20.default_enables_fastmath
#print axioms C20.no_default_disables_fastmath
#print axioms C20.explicit_fastmath
#print axioms C20.hooks_off_by_default
#print axioms C20.nofast_is_libm
#print axioms C20.power_law_nofast
#print axioms C20.nofast_accuracy
#print axioms C20.builds_agree
#print axioms C20.nofast_roundtrip
