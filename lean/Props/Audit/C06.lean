import Props.C06
#print axioms C06.same_primaries
#print axioms C06.white_to_white
#print axioms C06.row_prim
#print axioms C06.prim_close
