import Props.C06
#print axioms C06.same_primaries
#print axioms C06.white_to_white
