import Props.C14
#print axioms C14.yuvToRgb_status
#print axioms C14.rgbToYuv_status
#print axioms C14.rgbToLinear_status
#print axioms C14.linearToRgb_status
#print axioms C14.stLin_build
#print axioms C14.stGam_build
#print axioms C14.stYuvRgb_build
#print axioms C14.gamma_linear_symmetric
#print axioms C14.supported_succeed
#print axioms C14.errors_name_the_field
#print axioms C14.two_stage_support_symmetric
#print axioms C14.std_matrix_ignores_primaries
