import Props.C10
#print axioms C10.linear_roundtrip
#print axioms C10.alias_roundtrip
