import Props.C10b
import Props.C10c
import Props.C10d
import Props.C10e
import Props.C10f
import Props.C10g
#print axioms C10.linear_roundtrip
#print axioms C10.alias_roundtrip
#print axioms C10.roundtrip_pow
#print axioms C10.power_law_roundtrip
#print axioms C10.log_roundtrip
#print axioms C10.hlg_roundtrip
#print axioms C10.srgb_roundtrip
#print axioms C10.xvycc_roundtrip
#print axioms C10.roundtrip13
