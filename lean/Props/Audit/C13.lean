import Props.C13
#print axioms C13.codes_valid
#print axioms C13.rgbToYuv_total
#print axioms C13.yuvToRgb_total
#print axioms C13.float_stages_total
