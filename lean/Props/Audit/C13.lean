import Props.C13
import Props.C13b
import Props.C13c
import Props.C13d
#print axioms C13.codes_valid
#print axioms C13.rgbToYuv_total
#print axioms C13.yuvToRgb_total
#print axioms C13.float_stages_total
#print axioms C13.rgbToLinear_total
#print axioms C13.linearToRgb_total
#print axioms C18.exp2_total
#print axioms C18.curve_total
#print axioms C13.curves_finite
#print axioms C13.rgbToLinear_finite
#print axioms C13.linearToXyb_finite
#print axioms C13.xybToLinear_finite
#print axioms C13.linearToHsl_finite
#print axioms C13.yuvToRgb_finite
