import Props.C15
#print axioms C15.guess_is_mpv
#print axioms C15.fix_is_resolved
#print axioms C15.fix_specified
#print axioms C15.fix_idempotent
#print axioms C15.fix_other_fields
#print axioms C15.yuvNew_config
#print axioms C15.rgbNew_resolved
#print axioms C15.ypbpr_config
#print axioms C15.rgbToYuv_config
#print axioms C15.linearToYuv_label
