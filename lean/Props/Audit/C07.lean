import Props.C07
#print axioms C07.new_establishes_inv
#print axioms C07.decode_safe
#print axioms C07.yuvToRgb_safe
#print axioms C07.encode_safe
#print axioms C07.undersized_chroma_rejected
#print axioms C07.uncovered_plane_rejected
