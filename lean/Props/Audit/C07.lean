import Props.C07
import Props.C13
#print axioms C07.new_establishes_inv
#print axioms C07.decode_safe
#print axioms C07.yuvToRgb_safe
#print axioms C07.encode_safe
#print axioms C07.undersized_chroma_rejected
#print axioms C07.uncovered_plane_rejected
#print axioms C07.accepted_area_fits
#print axioms C07.decode_indices_fit
#print axioms C07.encode_indices_fit
#print axioms C07.area_overflow_rejected
#print axioms C18.exp2_total
#print axioms C18.curve_total
#print axioms C13.rgbToLinear_total
#print axioms C13.linearToRgb_total
