import Props.C09
#print axioms C09.yuvToRgb_dims
#print axioms C09.rgbToLinear_dims
#print axioms C09.linearToRgb_dims
#print axioms C09.rgbToYuv_dims
#print axioms C09.roundtrip_shape
