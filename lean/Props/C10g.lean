import Props.C10c
import Props.C10d
import Props.C10e
import Props.C10f
import Props.C03j
/-! C10, headline: the round trip for 13 of the 14 supported characteristics (all but PQ). -/
namespace C10
open F32 MathM TransferM C03

/-- **C10** (all characteristics except PQ): with the `fastmath` feature, for either value of the FMA flag, and under the stated
accuracy hypotheses on the two libm parameters (`log10`, `ln`; used by the linear -> gamma direction of Log100/316 and HLG
only), gamma -> linear -> gamma through the dispatch tables returns EVERY binary32 value `x` of `[0, 1]` (zero of either sign,
subnormals, normals) as a finite value within 2.5e-4 of `x`. -/
theorem roundtrip13 (B : Build) (hB : B.fastmath = true) (hL10 : LibmLog10Accurate B.libm) (hLn : LibmLnAccurate B.libm)
    (t : TC) (ht : t ∈ thirteen) :
    ∃ f g, toLinearFn B t = .ok f ∧ toGammaFn B t = .ok g ∧ RoundTripWithin f g := by
  have hpl : ∀ t', t' ∈ powerLaw → ∃ f g, toLinearFn B t' = .ok f ∧ toGammaFn B t' = .ok g ∧ RoundTripWithin f g :=
    fun t' h => power_law_roundtrip B hB t' h
  simp only [thirteen, List.mem_cons, List.mem_nil_iff, or_false] at ht
  rcases ht with rfl | rfl | rfl | rfl | rfl | rfl | rfl | rfl | rfl | rfl | rfl | rfl | rfl
  · exact hpl _ (by simp [powerLaw])
  · exact hpl _ (by simp [powerLaw])
  · exact hpl _ (by simp [powerLaw])
  · exact hpl _ (by simp [powerLaw])
  · exact hpl _ (by simp [powerLaw])
  · exact hpl _ (by simp [powerLaw])
  · exact hpl _ (by simp [powerLaw])
  · exact xvycc_roundtrip B hB
  · exact srgb_roundtrip B hB
  · exact (log_roundtrip B hB hL10).1
  · exact (log_roundtrip B hB hL10).2
  · exact hlg_roundtrip B hB hLn
  · exact ⟨_, _, rfl, rfl, fun x _ hx _ _ => ⟨x, x, rfl, rfl, hx, by rw [sub_self, abs_zero]; norm_num⟩⟩

end C10
