import Proofs.XybInv
import Model.Types
/-! C05 — XYB -> linear RGB inverts the forward transform: for every finite pixel of [0,1]^3 the round trip
`xybToLrgb (lrgbToXyb p)` returns `p` within 5e-5 per component (fastmath build). The proof follows the values through both
functions: the inverse recombines `Y ± X` into the forward L and M up to 3.5 ulp, undoes the bias subtraction with the SAME
constant (`cbrtf(-b) = -cbrtf(b)` bit for bit, evaluated), cubes, and applies the inverse matrix; the exact real identity behind it
is `INV · K = I` for the model's two constant tables, which is checked in exact rational arithmetic on the regenerated constants
(row sums of `|INV·K - I|` at most 6e-7) - so an inverse table that no longer matches the forward one breaks this theorem. -/
namespace C05
open F32 Real Cbrt Xyb PixelM

/-- `INV · K = I` for the model's two constant tables, in exact arithmetic: for pixels of the unit cube the real inverse matrix
applied to the real mixes (bias removed) returns the pixel within 6e-7 -/
theorem mat_id (x y z : ℝ) (hx : 0 ≤ x ∧ x ≤ 1) (hy : 0 ≤ y ∧ y ≤ 1) (hz : 0 ≤ z ∧ z ≤ 1) :
    let v0 := mixR (toReal K_M00) (toReal K_M01) (toReal K_M02) (toReal K_B0) x y z
    let v1 := mixR (toReal K_M10) (toReal K_M11) (toReal K_M12) (toReal K_B0) x y z
    let v2 := mixR (toReal K_M20) (toReal K_M21) (toReal K_M22) (toReal K_B0) x y z
    |toReal (INV 2) * (v2 - toReal K_B0) + (toReal (INV 1) * (v1 - toReal K_B0) + toReal (INV 0) * (v0 - toReal K_B0)) - x| ≤ 6 / 10000000 ∧
    |toReal (INV 5) * (v2 - toReal K_B0) + (toReal (INV 4) * (v1 - toReal K_B0) + toReal (INV 3) * (v0 - toReal K_B0)) - y| ≤ 6 / 10000000 ∧
    |toReal (INV 8) * (v2 - toReal K_B0) + (toReal (INV 7) * (v1 - toReal K_B0) + toReal (INV 6) * (v0 - toReal K_B0)) - z| ≤ 6 / 10000000 := by
  intro v0 v1 v2
  simp only [v0, v1, v2, mixR]
  rw [v_k_m00.2, v_k_m01.2, v_k_m02.2, v_k_m10.2, v_k_m11.2, v_k_m12.2, v_k_m20.2, v_k_m21.2, v_k_m22.2, v_k_b0.2,
    v_i0.2, v_i1.2, v_i2.2, v_i3.2, v_i4.2, v_i5.2, v_i6.2, v_i7.2, v_i8.2]
  refine ⟨?_, ?_, ?_⟩ <;> rw [abs_le] <;> constructor <;> linarith [hx.1, hx.2, hy.1, hy.2, hz.1, hz.2]

theorem inv_bnd : Bnd (INV 0) (11032 / 1000) ∧ Bnd (INV 1) (9867 / 1000) ∧ Bnd (INV 2) (165 / 1000) ∧
    Bnd (INV 3) (3255 / 1000) ∧ Bnd (INV 4) (4419 / 1000) ∧ Bnd (INV 5) (165 / 1000) ∧
    Bnd (INV 6) (3659 / 1000) ∧ Bnd (INV 7) (2713 / 1000) ∧ Bnd (INV 8) (1946 / 1000) := by
  refine ⟨⟨v_i0.1, ?_⟩, ⟨v_i1.1, ?_⟩, ⟨v_i2.1, ?_⟩, ⟨v_i3.1, ?_⟩, ⟨v_i4.1, ?_⟩, ⟨v_i5.1, ?_⟩, ⟨v_i6.1, ?_⟩, ⟨v_i7.1, ?_⟩, ⟨v_i8.1, ?_⟩⟩
  · rw [v_i0.2, abs_le]; constructor <;> norm_num
  · rw [v_i1.2, abs_le]; constructor <;> norm_num
  · rw [v_i2.2, abs_le]; constructor <;> norm_num
  · rw [v_i3.2, abs_le]; constructor <;> norm_num
  · rw [v_i4.2, abs_le]; constructor <;> norm_num
  · rw [v_i5.2, abs_le]; constructor <;> norm_num
  · rw [v_i6.2, abs_le]; constructor <;> norm_num
  · rw [v_i7.2, abs_le]; constructor <;> norm_num
  · rw [v_i8.2, abs_le]; constructor <;> norm_num

/-- the exact mix minus the bias lies in [0, 1.0001] on the unit cube -/
theorem mix_range (K0 K1 K2 Kb x y z : ℝ) (h0 : 0 < K0) (h1 : 0 < K1) (h2 : 0 < K2) (hs : K0 + K1 + K2 ≤ 10001 / 10000)
    (hx : 0 ≤ x ∧ x ≤ 1) (hy : 0 ≤ y ∧ y ≤ 1) (hz : 0 ≤ z ∧ z ≤ 1) :
    0 ≤ mixR K0 K1 K2 Kb x y z - Kb ∧ mixR K0 K1 K2 Kb x y z - Kb ≤ 10001 / 10000 := by
  unfold mixR
  have := mul_nonneg h0.le hx.1; have := mul_nonneg h1.le hy.1; have := mul_nonneg h2.le hz.1
  have := mul_le_mul_of_nonneg_left hx.2 h0.le; have := mul_le_mul_of_nonneg_left hy.2 h1.le; have := mul_le_mul_of_nonneg_left hz.2 h2.le
  constructor <;> linarith

set_option maxHeartbeats 4000000 in
/-- **C05**: XYB -> linear RGB inverts the forward transform on the unit cube within 5e-5 per component -/
theorem roundtrip (B : Build) (hB : B.fastmath = true) (p : Mat32.V3) (hp : Unit3 p) :
    let o := xybToLrgb B (lrgbToXyb B p)
    (F32.Finite o.x ∧ F32.Finite o.y ∧ F32.Finite o.z) ∧
    |toReal o.x - toReal p.x| ≤ 5 / 100000 ∧ |toReal o.y - toReal p.y| ≤ 5 / 100000 ∧ |toReal o.z - toReal p.z| ≤ 5 / 100000 := by
  intro o
  have k00 := v_k_m00; have k01 := v_k_m01; have k02 := v_k_m02
  have k10 := v_k_m10; have k11 := v_k_m11; have k12 := v_k_m12
  have k20 := v_k_m20; have k21 := v_k_m21; have k22 := v_k_m22
  obtain ⟨fl0, wl0, el0, bl0, g0lo, g0hi, gv0⟩ := fwd_rt B hB K_M00 K_M01 K_M02 k00.1 k01.1 k02.1
    (by rw [k00.2]; norm_num) (by rw [k01.2]; norm_num) (by rw [k02.2]; norm_num) (by rw [k00.2]; norm_num) (by rw [k01.2]; norm_num) (by rw [k02.2]; norm_num)
    (by rw [k00.2, k01.2, k02.2]; norm_num) p hp
  obtain ⟨fl1, wl1, el1, bl1, g1lo, g1hi, gv1⟩ := fwd_rt B hB K_M10 K_M11 K_M12 k10.1 k11.1 k12.1
    (by rw [k10.2]; norm_num) (by rw [k11.2]; norm_num) (by rw [k12.2]; norm_num) (by rw [k10.2]; norm_num) (by rw [k11.2]; norm_num) (by rw [k12.2]; norm_num)
    (by rw [k10.2, k11.2, k12.2]; norm_num) p hp
  obtain ⟨fl2, wl2, el2, bl2, g2lo, g2hi, gv2⟩ := fwd_rt B hB K_M20 K_M21 K_M22 k20.1 k21.1 k22.1
    (by rw [k20.2]; norm_num) (by rw [k21.2]; norm_num) (by rw [k22.2]; norm_num) (by rw [k20.2]; norm_num) (by rw [k21.2]; norm_num) (by rw [k22.2]; norm_num)
    (by rw [k20.2, k21.2, k22.2]; norm_num) p hp
  obtain ⟨r0lo, r0hi⟩ := mix_range (toReal K_M00) (toReal K_M01) (toReal K_M02) (toReal K_B0) _ _ _ (by rw [k00.2]; norm_num) (by rw [k01.2]; norm_num) (by rw [k02.2]; norm_num)
    (by rw [k00.2, k01.2, k02.2]; norm_num) hp.bx hp.bY hp.bz
  obtain ⟨r1lo, r1hi⟩ := mix_range (toReal K_M10) (toReal K_M11) (toReal K_M12) (toReal K_B0) _ _ _ (by rw [k10.2]; norm_num) (by rw [k11.2]; norm_num) (by rw [k12.2]; norm_num)
    (by rw [k10.2, k11.2, k12.2]; norm_num) hp.bx hp.bY hp.bz
  obtain ⟨r2lo, r2hi⟩ := mix_range (toReal K_M20) (toReal K_M21) (toReal K_M22) (toReal K_B0) _ _ _ (by rw [k20.2]; norm_num) (by rw [k21.2]; norm_num) (by rw [k22.2]; norm_num)
    (by rw [k20.2, k21.2, k22.2]; norm_num) hp.bx hp.bY hp.bz
  obtain ⟨id0, id1, id2⟩ := mat_id (toReal p.x) (toReal p.y) (toReal p.z) hp.bx hp.bY hp.bz
  set v0 := mixR (toReal K_M00) (toReal K_M01) (toReal K_M02) (toReal K_B0) (toReal p.x) (toReal p.y) (toReal p.z)
  set v1 := mixR (toReal K_M10) (toReal K_M11) (toReal K_M12) (toReal K_B0) (toReal p.x) (toReal p.y) (toReal p.z)
  set v2 := mixR (toReal K_M20) (toReal K_M21) (toReal K_M22) (toReal K_B0) (toReal p.x) (toReal p.y) (toReal p.z)
  set γ0 := cbrtR (toReal (row K_M00 K_M01 K_M02 K_B0 p))
  set γ1 := cbrtR (toReal (row K_M10 K_M11 K_M12 K_B0 p))
  set γ2 := cbrtR (toReal (row K_M20 K_M21 K_M22 K_B0 p))
  set l0 := F32.add (stage B (row K_M00 K_M01 K_M02 K_B0 p)) (F32.neg (MathM.cbrtf B K_B0))
  set l1 := F32.add (stage B (row K_M10 K_M11 K_M12 K_B0 p)) (F32.neg (MathM.cbrtf B K_B0))
  set l2 := F32.add (stage B (row K_M20 K_M21 K_M22 K_B0 p)) (F32.neg (MathM.cbrtf B K_B0))
  set Ab := toReal (F32.neg (MathM.cbrtf B K_B0))
  obtain ⟨frq, fgq, erq, egq⟩ := recombine l0 l1 fl0 fl1 wl1 bl0 bl1
  set X := F32.mul C.mixed_to_xyb_f1 (F32.sub l0 l1)
  set Y := F32.mul C.mixed_to_xyb_f2 (F32.add l0 l1)
  have hr0 : |toReal (F32.add Y X) - (γ0 + Ab)| ≤ 372 / 1000000000 := by
    have := abs_sub_le (toReal (F32.add Y X)) (toReal l0) (γ0 + Ab); linarith
  have hr1 : |toReal (F32.sub Y X) - (γ1 + Ab)| ≤ 372 / 1000000000 := by
    have := abs_sub_le (toReal (F32.sub Y X)) (toReal l1) (γ1 + Ab); linarith
  have hr2 : |toReal l2 - (γ2 + Ab)| ≤ 372 / 1000000000 := by linarith
  obtain ⟨fm0, em0⟩ := inv_chan B hB (F32.add Y X) frq γ0 ⟨g0lo, g0hi⟩ hr0
  obtain ⟨fm1, em1⟩ := inv_chan B hB (F32.sub Y X) fgq γ1 ⟨g1lo, g1hi⟩ hr1
  obtain ⟨fm2, em2⟩ := inv_chan B hB l2 fl2 γ2 ⟨g2lo, g2hi⟩ hr2
  set m0 := F32.fma (F32.mul (F32.sub (F32.add Y X) (MathM.cbrtf B (F32.neg K_B0))) (F32.sub (F32.add Y X) (MathM.cbrtf B (F32.neg K_B0)))) (F32.sub (F32.add Y X) (MathM.cbrtf B (F32.neg K_B0))) (F32.neg K_B0)
  set m1 := F32.fma (F32.mul (F32.sub (F32.sub Y X) (MathM.cbrtf B (F32.neg K_B0))) (F32.sub (F32.sub Y X) (MathM.cbrtf B (F32.neg K_B0)))) (F32.sub (F32.sub Y X) (MathM.cbrtf B (F32.neg K_B0))) (F32.neg K_B0)
  set m2 := F32.fma (F32.mul (F32.sub l2 (MathM.cbrtf B (F32.neg K_B0))) (F32.sub l2 (MathM.cbrtf B (F32.neg K_B0)))) (F32.sub l2 (MathM.cbrtf B (F32.neg K_B0))) (F32.neg K_B0)
  have ho : o = ⟨F32.fma (INV 2) m2 (F32.fma (INV 1) m1 (F32.mul (INV 0) m0)), F32.fma (INV 5) m2 (F32.fma (INV 4) m1 (F32.mul (INV 3) m0)),
      F32.fma (INV 8) m2 (F32.fma (INV 7) m1 (F32.mul (INV 6) m0))⟩ := rfl
  -- each inverse mix against the exact mix minus the bias
  have t0 : |toReal m0 - (v0 - toReal K_B0)| ≤ 188 / 100000000 := by
    have := abs_sub_le (toReal m0) (γ0 ^ 3 - toReal K_B0) (v0 - toReal K_B0)
    have e : γ0 ^ 3 - toReal K_B0 - (v0 - toReal K_B0) = γ0 ^ 3 - v0 := by ring
    rw [e] at this; linarith
  have t1 : |toReal m1 - (v1 - toReal K_B0)| ≤ 188 / 100000000 := by
    have := abs_sub_le (toReal m1) (γ1 ^ 3 - toReal K_B0) (v1 - toReal K_B0)
    have e : γ1 ^ 3 - toReal K_B0 - (v1 - toReal K_B0) = γ1 ^ 3 - v1 := by ring
    rw [e] at this; linarith
  have t2 : |toReal m2 - (v2 - toReal K_B0)| ≤ 188 / 100000000 := by
    have := abs_sub_le (toReal m2) (γ2 ^ 3 - toReal K_B0) (v2 - toReal K_B0)
    have e : γ2 ^ 3 - toReal K_B0 - (v2 - toReal K_B0) = γ2 ^ 3 - v2 := by ring
    rw [e] at this; linarith
  have bm : ∀ (m : Nat) (t : ℝ), F32.Finite m → |toReal m - t| ≤ 188 / 100000000 → 0 ≤ t → t ≤ 10001 / 10000 → Bnd m (101 / 100) := by
    intro m t fm e tl th
    refine ⟨fm, ?_⟩
    obtain ⟨a1, a2⟩ := abs_le.mp e
    rw [abs_le]; constructor <;> linarith
  have b0 := bm m0 _ fm0 t0 r0lo r0hi
  have b1 := bm m1 _ fm1 t1 r1lo r1hi
  have b2 := bm m2 _ fm2 t2 r2lo r2hi
  obtain ⟨i0, i1, i2, i3, i4, i5, i6, i7, i8⟩ := inv_bnd
  obtain ⟨fo0, eo0⟩ := out_row (INV 0) (INV 1) (INV 2) m0 m1 m2 _ _ _ (188 / 100000000) _ _ _ i0 i1 i2 b0 b1 b2 t0 t1 t2 (by norm_num) (by norm_num) (by norm_num) (by norm_num) (by norm_num)
  obtain ⟨fo1, eo1⟩ := out_row (INV 3) (INV 4) (INV 5) m0 m1 m2 _ _ _ (188 / 100000000) _ _ _ i3 i4 i5 b0 b1 b2 t0 t1 t2 (by norm_num) (by norm_num) (by norm_num) (by norm_num) (by norm_num)
  obtain ⟨fo2, eo2⟩ := out_row (INV 6) (INV 7) (INV 8) m0 m1 m2 _ _ _ (188 / 100000000) _ _ _ i6 i7 i8 b0 b1 b2 t0 t1 t2 (by norm_num) (by norm_num) (by norm_num) (by norm_num) (by norm_num)
  rw [ho]
  refine ⟨⟨fo0, fo1, fo2⟩, ?_, ?_, ?_⟩
  · have := abs_sub_le (toReal (F32.fma (INV 2) m2 (F32.fma (INV 1) m1 (F32.mul (INV 0) m0)))) (toReal (INV 2) * (v2 - toReal K_B0) + (toReal (INV 1) * (v1 - toReal K_B0) + toReal (INV 0) * (v0 - toReal K_B0))) (toReal p.x)
    show |toReal (F32.fma (INV 2) m2 (F32.fma (INV 1) m1 (F32.mul (INV 0) m0))) - toReal p.x| ≤ _
    linarith
  · have := abs_sub_le (toReal (F32.fma (INV 5) m2 (F32.fma (INV 4) m1 (F32.mul (INV 3) m0)))) (toReal (INV 5) * (v2 - toReal K_B0) + (toReal (INV 4) * (v1 - toReal K_B0) + toReal (INV 3) * (v0 - toReal K_B0))) (toReal p.y)
    show |toReal (F32.fma (INV 5) m2 (F32.fma (INV 4) m1 (F32.mul (INV 3) m0))) - toReal p.y| ≤ _
    linarith
  · have := abs_sub_le (toReal (F32.fma (INV 8) m2 (F32.fma (INV 7) m1 (F32.mul (INV 6) m0)))) (toReal (INV 8) * (v2 - toReal K_B0) + (toReal (INV 7) * (v1 - toReal K_B0) + toReal (INV 6) * (v0 - toReal K_B0))) (toReal p.z)
    show |toReal (F32.fma (INV 8) m2 (F32.fma (INV 7) m1 (F32.mul (INV 6) m0))) - toReal p.z| ≤ _
    linarith

/-- **C05 at the API level**: `LinearRgb::from(Xyb::from(img))` keeps width, height and pixel order and returns every pixel of
the unit cube within 5e-5 per component, for images of any size -/
theorem api_roundtrip (B : Build) (hB : B.fastmath = true) (img : Api.FImg) :
    let back := Api.xybToLinear B (Api.linearToXyb B img)
    back.w = img.w ∧ back.h = img.h ∧ back.data.size = img.data.size ∧
    ∀ i (hi : i < img.data.size), Unit3 img.data[i] →
      |toReal (back.data[i]!).x - toReal img.data[i].x| ≤ 5 / 100000 ∧ |toReal (back.data[i]!).y - toReal img.data[i].y| ≤ 5 / 100000 ∧
      |toReal (back.data[i]!).z - toReal img.data[i].z| ≤ 5 / 100000 := by
  intro back
  refine ⟨rfl, rfl, by simp [back, Api.xybToLinear, Api.linearToXyb], ?_⟩
  intro i hi hp
  have hb : back.data[i]! = xybToLrgb B (lrgbToXyb B img.data[i]) := by simp [back, Api.xybToLinear, Api.linearToXyb, hi]
  rw [hb]
  exact (roundtrip B hB img.data[i] hp).2

/-- non-vacuity: (1, 0.5, 0) is a pixel of the unit cube -/
example : Unit3 ⟨0x3f800000, 0x3f000000, 0⟩ := by
  have h1 : decode 0x3f800000 = .fin false 8388608 (-23) := by decide +kernel
  have h2 : decode 0x3f000000 = .fin false 8388608 (-24) := by decide +kernel
  have h3 : decode 0 = .fin false 0 (-149) := by decide +kernel
  refine ⟨⟨_, _, _, h1⟩, ⟨_, _, _, h2⟩, ⟨_, _, _, h3⟩, ?_, ?_, ?_⟩
  · show 0 ≤ toReal 0x3f800000 ∧ toReal 0x3f800000 ≤ 1
    rw [toReal_of_decode _ _ _ _ h1]; unfold valR; norm_num
  · show 0 ≤ toReal 0x3f000000 ∧ toReal 0x3f000000 ≤ 1
    rw [toReal_of_decode _ _ _ _ h2]; unfold valR; norm_num
  · show 0 ≤ toReal 0 ∧ toReal 0 ≤ 1
    rw [toReal_of_decode _ _ _ _ h3]; unfold valR; norm_num

end C05
