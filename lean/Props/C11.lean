import Props.C12
import Proofs.Inv
import Proofs.EncodeTop
/-! C11 — conversions are pointwise, order-preserving and layout-independent (and, from the same loop invariants,
the safety statements C07 needs). All theorems hold for every width, height, stride, padding and subsampling. -/
namespace C11
open FrameM FrameP Api Mat32 ColorM

/-! ### decode: YUV -> (normalised) pixels -/

/-- (i) `Yuv::new` establishes the invariant; under it the decode loop returns `w*h` pixels in row-major place, pixel
(x,y) being a function of `Y(x,y)` and the chroma samples at `(x>>ss_x, y>>ss_y)` only. -/
theorem decode_pointwise (y u v : Plane) (cfg : Cfg) (ts : Nat) (g : Yuv) (hg : Yuv.new y u v cfg ts = .ok (.ok g)) :
    ∃ out, ycbcrToYpbpr g = .ok out ∧ out.size = g.y.cfg.width * g.y.cfg.height ∧
      ∀ x yy, x < g.y.cfg.width → yy < g.y.cfg.height →
        out[yy * g.y.cfg.width + x]? = some (pixelOf g.y g.u g.v g.cfg.ssx g.cfg.ssy (normPx g.cfg) x yy) :=
  decode_spec g (inv_of_new y u v cfg ts g hg)

/-- two images with the same logical content: same config and dimensions, equal visible samples -/
structure SameLogical (a b : Yuv) : Prop where
  cfg : a.cfg = b.cfg
  w : a.y.cfg.width = b.y.cfg.width
  h : a.y.cfg.height = b.y.cfg.height
  ys : ∀ x yy, x < a.y.cfg.width → yy < a.y.cfg.height → Plane.sample a.y x yy = Plane.sample b.y x yy
  us : ∀ x yy, x < a.u.cfg.width → yy < a.u.cfg.height → Plane.sample a.u x yy = Plane.sample b.u x yy
  vs : ∀ x yy, x < a.v.cfg.width → yy < a.v.cfg.height → Plane.sample a.v x yy = Plane.sample b.v x yy

/-- layout independence: stride, padding, origin and padding contents do not influence the decoded image -/
theorem decode_layout_independent (a b : Yuv) (ha : InvYuv a) (hb : InvYuv b) (hs : SameLogical a b) :
    ycbcrToYpbpr a = ycbcrToYpbpr b := by
  obtain ⟨oa, ea, sa, pa⟩ := decode_spec a ha
  obtain ⟨ob, eb, sb, pb⟩ := decode_spec b hb
  rw [ea, eb]
  congr 1
  apply Array.ext
  · rw [sa, sb, hs.w, hs.h]
  · intro i h1 h2
    have hw : 0 < a.y.cfg.width := by
      rcases Nat.eq_zero_or_pos a.y.cfg.width with h0 | h0
      · rw [sa, h0] at h1; simp at h1
      · exact h0
    have hx : i % a.y.cfg.width < a.y.cfg.width := Nat.mod_lt _ hw
    have hy : i / a.y.cfg.width < a.y.cfg.height := by
      rw [sa] at h1; exact (Nat.div_lt_iff_lt_mul hw).mpr (by rw [Nat.mul_comm]; exact h1)
    have hi : i / a.y.cfg.width * a.y.cfg.width + i % a.y.cfg.width = i := by rw [Nat.mul_comm]; exact Nat.div_add_mod i _
    have e1 := pa _ _ hx hy
    have e2 := pb (i % a.y.cfg.width) (i / a.y.cfg.width) (by rw [← hs.w]; exact hx) (by rw [← hs.h]; exact hy)
    rw [← hs.w] at e2
    rw [hi] at e1 e2
    have hcx := shr_lt _ _ _ ha.wdiv hx
    have hcy := shr_lt _ _ _ ha.hdiv hy
    have : pixelOf a.y a.u a.v a.cfg.ssx a.cfg.ssy (normPx a.cfg) (i % a.y.cfg.width) (i / a.y.cfg.width) =
        pixelOf b.y b.u b.v b.cfg.ssx b.cfg.ssy (normPx b.cfg) (i % a.y.cfg.width) (i / a.y.cfg.width) := by
      unfold pixelOf
      rw [hs.ys _ _ hx hy, ← hs.cfg, hs.us _ _ (by rw [ha.uw]; exact hcx) (by rw [ha.uh]; exact hcy),
        hs.vs _ _ (by rw [ha.vw]; exact hcx) (by rw [ha.vh]; exact hcy)]
    rw [this] at e1
    have := e1.trans e2.symm
    simpa [Array.getElem?_eq_getElem, h1, h2] using this

/-! ### encode: pixels -> YUV -/

def lumaFn (cfg : Cfg) (ts : Nat) (v : Nat) : Nat := fromF32Luma ts v (scaleOffset false cfg.bd cfg.full false).1 (scaleOffset false cfg.bd cfg.full false).2 cfg.bd
def chromaFn (cfg : Cfg) (ts : Nat) (v : Nat) : Nat :=
  fromF32Chroma ts v (scaleOffset false cfg.bd cfg.full true).1 (scaleOffset false cfg.bd cfg.full true).2 cfg.bd cfg.full

theorem planeNew_ctx (inp : Array V3) (w h : Nat) (cfg : Cfg) (ts : Nat) (hw : 0 < w) (hh : 0 < h) (hin : inp.size = w * h)
    (wdiv : w % 2 ^ cfg.ssx = 0) (hdiv : h % 2 ^ cfg.ssy = 0)
    (fits : (Plane.new (w >>> cfg.ssx) (h >>> cfg.ssy) cfg.ssx cfg.ssy 0 0 ts).data.size < USIZE_MAX)
    (fitsY : (Plane.new w h 0 0 0 0 ts).data.size ≤ USIZE_MAX) :
    EncCtx inp w h cfg.ssx cfg.ssy (Plane.new w h 0 0 0 0 ts) (Plane.new (w >>> cfg.ssx) (h >>> cfg.ssy) cfg.ssx cfg.ssy 0 0 ts)
      (Plane.new (w >>> cfg.ssx) (h >>> cfg.ssy) cfg.ssx cfg.ssy 0 0 ts) := by
  have cw := shr_pos w cfg.ssx hw wdiv
  have ch := shr_pos h cfg.ssy hh hdiv
  refine ⟨rfl, rfl, rfl, rfl, rfl, ?_, ?_, ?_, ?_, ?_, wdiv, hdiv, fits, hin⟩
  · exact FrameP.planeNew_covers w h 0 0 0 0 ts _ hw hh rfl fitsY
  · exact FrameP.planeNew_covers _ _ _ _ 0 0 ts _ cw ch rfl (Nat.le_of_lt fits)
  · exact FrameP.planeNew_covers _ _ _ _ 0 0 ts _ cw ch rfl (Nat.le_of_lt fits)
  · show alignPow2 0 (6 + 1 - ts) + w ≤ alignPow2 (alignPow2 0 (6 + 1 - ts) + w + 0) (6 + 1 - ts)
    exact Nat.le_trans (by omega) (alignPow2_ge _ _)
  · show alignPow2 0 (6 + 1 - ts) + (w >>> cfg.ssx) ≤ alignPow2 (alignPow2 0 (6 + 1 - ts) + (w >>> cfg.ssx) + 0) (6 + 1 - ts)
    exact Nat.le_trans (by omega) (alignPow2_ge _ _)

theorem block_has_pixel (w s cx : Nat) (hcx : cx < w >>> s) : cx <<< s < w ∧ (cx <<< s) >>> s = cx := by
  rw [Nat.shiftRight_eq_div_pow] at hcx
  have hp : 0 < 2 ^ s := Nat.pow_pos (by decide)
  refine ⟨?_, ?_⟩
  · rw [Nat.shiftLeft_eq]
    have h1 : (cx + 1) * 2 ^ s ≤ w := (Nat.le_div_iff_mul_le hp).mp hcx
    rw [Nat.add_mul] at h1; omega
  · rw [Nat.shiftLeft_eq, Nat.shiftRight_eq_div_pow, Nat.mul_div_cancel _ hp]

/-- (ii) RGB->YUV plane loop, for every size divisible by the subsampling: no unchecked write leaves its buffer, the
final `Yuv::new(..).unwrap()` succeeds, the planes have sizes `(w, h)` and `(w>>ss_x, h>>ss_y)`, the luma plane is the
pointwise image of the input (so it equals the 4:4:4 luma plane), and every chroma sample is the quantised chroma of an
input pixel inside its own block. -/
theorem encode_spec (inp : Array V3) (w h : Nat) (cfg : Cfg) (ts : Nat) (hw : 0 < w) (hh : 0 < h) (hin : inp.size = w * h)
    (wdiv : w % 2 ^ cfg.ssx = 0) (hdiv : h % 2 ^ cfg.ssy = 0) (hss : cfg.ssx < 256 ∧ cfg.ssy < 256)
    (fits : (Plane.new (w >>> cfg.ssx) (h >>> cfg.ssy) cfg.ssx cfg.ssy 0 0 ts).data.size < USIZE_MAX)
    (fitsY : (Plane.new w h 0 0 0 0 ts).data.size ≤ USIZE_MAX) :
    ∃ g, ypbprToYcbcr inp w h cfg ts = .ok g ∧ InvYuv g ∧ g.cfg = cfg.fixUnspecified w h ∧
      g.y.cfg = (Plane.new w h 0 0 0 0 ts).cfg ∧ g.u.cfg = (Plane.new (w >>> cfg.ssx) (h >>> cfg.ssy) cfg.ssx cfg.ssy 0 0 ts).cfg ∧
      g.v.cfg = g.u.cfg ∧
      (∀ x yy, x < w → yy < h → Plane.sample g.y x yy = lumaFn cfg ts (inp[yy * w + x]!).x) ∧
      (∀ cx cy, cx < w >>> cfg.ssx → cy < h >>> cfg.ssy → ∃ x' y', x' < w ∧ y' < h ∧ InBlock cfg.ssx cfg.ssy x' y' cx cy ∧
        Plane.sample g.u cx cy = chromaFn cfg ts (inp[y' * w + x']!).y ∧ Plane.sample g.v cx cy = chromaFn cfg ts (inp[y' * w + x']!).z) := by
  have hc := planeNew_ctx inp w h cfg ts hw hh hin wdiv hdiv fits fitsY
  obtain ⟨st, es, is_⟩ := encRows_spec inp w h cfg.ssx cfg.ssy (lumaFn cfg ts) (chromaFn cfg ts) _ _ _ hc h _ (Nat.le_refl _)
    (by simpa using encInv_init inp w h cfg.ssx cfg.ssy (lumaFn cfg ts) (chromaFn cfg ts) _ _ _ hc)
  -- all pixels are processed at the end
  have hdone : ∀ x' y', x' < w → y' < h → Done h 0 x' y' := by intro x' y' _ hy; unfold Done; omega
  have hchroma : ∀ cx cy, cx < w >>> cfg.ssx → cy < h >>> cfg.ssy → ∃ x' y', x' < w ∧ y' < h ∧ InBlock cfg.ssx cfg.ssy x' y' cx cy ∧
      Plane.sample st.uP cx cy = chromaFn cfg ts (inp[y' * w + x']!).y ∧ Plane.sample st.vP cx cy = chromaFn cfg ts (inp[y' * w + x']!).z := by
    intro cx cy hcx hcy
    obtain ⟨bx, bx'⟩ := block_has_pixel w cfg.ssx cx hcx
    obtain ⟨by_, by'⟩ := block_has_pixel h cfg.ssy cy hcy
    obtain ⟨x', y', a, b, _, d, e, f⟩ := is_.chroma cx cy hcx hcy ⟨_, _, bx, by_, hdone _ _ bx by_, ⟨bx', by'⟩⟩
    exact ⟨x', y', a, b, d, e, f⟩
  -- the final constructor call succeeds: the frame is well-formed
  have hyc : st.yP.cfg = (Plane.new w h 0 0 0 0 ts).cfg := is_.gy.1
  have huc : st.uP.cfg = (Plane.new (w >>> cfg.ssx) (h >>> cfg.ssy) cfg.ssx cfg.ssy 0 0 ts).cfg := is_.gu.1
  have hvc : st.vP.cfg = (Plane.new (w >>> cfg.ssx) (h >>> cfg.ssy) cfg.ssx cfg.ssy 0 0 ts).cfg := is_.gv.1
  have hwf : C12.WellFormed st.yP st.uP st.vP cfg ts := by
    refine ⟨?_, ?_, ?_, ?_, ⟨?_, ?_, ?_⟩, ?_⟩
    · unfold C12.DecimMismatch; rw [huc, hvc]
      show ¬ (cfg.ssx ≠ cfg.ssx % 256 ∨ cfg.ssx ≠ cfg.ssx % 256 ∨ cfg.ssy ≠ cfg.ssy % 256 ∨ cfg.ssy ≠ cfg.ssy % 256)
      omega
    · rw [hyc]; exact wdiv
    · rw [hyc]; exact hdiv
    · unfold C12.ChromaSizeWrong; rw [hyc, huc, hvc]
      show ¬ (w >>> cfg.ssx ≠ w >>> cfg.ssx ∨ h >>> cfg.ssy ≠ h >>> cfg.ssy ∨ w >>> cfg.ssx ≠ w >>> cfg.ssx ∨ h >>> cfg.ssy ≠ h >>> cfg.ssy)
      omega
    · rw [covers_of_geom _ _ is_.gy]; exact hc.cy
    · rw [covers_of_geom _ _ is_.gu]; exact hc.cu
    · rw [covers_of_geom _ _ is_.gv]; exact hc.cv
    · rintro ⟨_, hbd⟩
      have hm := maxCode_ok cfg.bd hbd
      rintro (⟨x, yy, hx, hy, hv⟩ | ⟨x, yy, hx, hy, hv⟩ | ⟨x, yy, hx, hy, hv⟩)
      · rw [hyc] at hx hy
        rw [is_.luma x yy hx hy (hdone _ _ hx hy)] at hv
        have := fromF32Luma_le ts (inp[yy * w + x]!).x (scaleOffset false cfg.bd cfg.full false).1 (scaleOffset false cfg.bd cfg.full false).2 cfg.bd
        unfold lumaFn C12.maxCode at *; omega
      · rw [huc] at hx hy
        obtain ⟨x', y', _, _, _, e, _⟩ := hchroma x yy hx hy
        rw [e] at hv
        have := fromF32Chroma_le ts (inp[y' * w + x']!).y (scaleOffset false cfg.bd cfg.full true).1 (scaleOffset false cfg.bd cfg.full true).2 cfg.bd cfg.full
        unfold chromaFn C12.maxCode at *; omega
      · rw [hvc] at hx hy
        obtain ⟨x', y', _, _, _, _, f⟩ := hchroma x yy hx hy
        rw [f] at hv
        have := fromF32Chroma_le ts (inp[y' * w + x']!).z (scaleOffset false cfg.bd cfg.full true).1 (scaleOffset false cfg.bd cfg.full true).2 cfg.bd cfg.full
        unfold chromaFn C12.maxCode at *; omega
  have hnew := (C12.yuvNew_iff st.yP st.uP st.vP cfg ts (by rw [hyc]; exact hw)).2 hwf
  have hyp : ypbprToYcbcr inp w h cfg ts = .ok (C12.good st.yP st.uP st.vP cfg ts) := by
    unfold ypbprToYcbcr
    have hd : ¬ ¬ (w % 2 ^ cfg.ssx = 0 ∧ h % 2 ^ cfg.ssy = 0) := fun hn => hn ⟨wdiv, hdiv⟩
    simp only [hd, if_false]
    unfold lumaFn chromaFn at es
    rw [es]
    simp only [hnew]
  refine ⟨_, hyp, inv_of_new _ _ _ _ _ _ hnew, ?_, hyc, huc, hvc.trans huc.symm, ?_, hchroma⟩
  · show cfg.fixUnspecified st.yP.cfg.width st.yP.cfg.height = cfg.fixUnspecified w h
    rw [hyc]; rfl
  · intro x yy hx hy
    exact is_.luma x yy hx hy (hdone _ _ hx hy)

/-! ### float conversions are pointwise maps -/

/-- (iii) XYB and HSL conversions are `map` of their pixel function: pixel i of the result depends on pixel i only, equals
the conversion of the 1x1 image holding that pixel, and dimensions are preserved. -/
theorem float_maps_pointwise (B : Build) (img : FImg) (i : Nat) (hi : i < img.data.size) :
    (linearToXyb B img).data[i]! = (linearToXyb B { data := #[img.data[i]], w := 1, h := 1 }).data[0]! ∧
    (xybToLinear B img).data[i]! = (xybToLinear B { data := #[img.data[i]], w := 1, h := 1 }).data[0]! ∧
    (linearToHsl img).data[i]! = (linearToHsl { data := #[img.data[i]], w := 1, h := 1 }).data[0]! ∧
    (hslToLinear img).data[i]! = (hslToLinear { data := #[img.data[i]], w := 1, h := 1 }).data[0]! ∧
    (linearToXyb B img).w = img.w ∧ (linearToXyb B img).h = img.h ∧ (linearToXyb B img).data.size = img.data.size ∧
    (linearToHsl img).w = img.w ∧ (linearToHsl img).h = img.h ∧ (linearToHsl img).data.size = img.data.size := by
  simp [linearToXyb, xybToLinear, linearToHsl, hslToLinear, hi]

/-- transfer curves: the image function applies the scalar curve to each component of each pixel, in place -/
theorem mapPxL_pointwise (f : Nat → Out Nat) : ∀ (l l' : List V3), mapPxL f l = .ok l' →
    l'.length = l.length ∧ ∀ i (h : i < l.length) (h' : i < l'.length), mapPxL f [l[i]] = .ok [l'[i]] := by
  intro l
  induction l with
  | nil => intro l' h; simp [mapPxL] at h; subst h; simp
  | cons p ps ih =>
    intro l' h
    unfold mapPxL at h
    cases ha : f p.x <;> simp [ha, Out.bind] at h
    cases hb : f p.y <;> simp [hb, Out.bind] at h
    cases hc : f p.z <;> simp [hc, Out.bind] at h
    cases hr : mapPxL f ps <;> simp [hr, Out.bind] at h
    rename_i a b c rest
    subst h
    obtain ⟨hl, hp⟩ := ih rest hr
    refine ⟨by simp [hl], ?_⟩
    intro i hi hi'
    cases i with
    | zero => simp [mapPxL, ha, hb, hc, Out.bind]
    | succ j => simpa using hp j (by simpa using hi) (by simpa using hi')

/-- (v) determinism and source immutability hold by construction for the model (pure functions); for the code they are
what the correspondence and the C11 oracle check (bit-identical repeat runs, hashed source buffers). -/
theorem deterministic (B : Build) (g : Yuv) : yuvToRgb B g = yuvToRgb B g := rfl

end C11
