import Props.C13b
import Props.C06
import Props.C10d
/-! C13, finiteness clause for a whole conversion: `Rgb -> LinearRgb` (gamma decoding followed by the conversion of the
primaries to the BT.709 working space) maps every image whose components are finite values of `[0, 1]` to an image of finite
components, for 13 of the 14 transfer characteristics and all 11 supported primaries (fastmath build, both FMA modes).
The transfer stage is within 2.5e-4 of its defining formula (C03.accuracy), whose values lie in `[0, 1.01]`, so its outputs have
magnitude below 2, where the primaries stage is proved finite (C06.prim_close). -/
namespace C13
open F32 MathM TransferM C03 Api PixelM Mat32 ColorM

/-- the gamma -> linear defining formulas stay in `[0, 1.01]` on `[0, 1]` -/
theorem specToLinear_range (t : TC) (ht : t ∈ thirteen) (X : ℝ) (h0 : 0 ≤ X) (h1 : X ≤ 1) : 0 ≤ specToLinear t X ∧ specToLinear t X ≤ 101 / 100 := by
  have pw : ∀ γ : ℝ, 0 ≤ γ → 0 ≤ X ^ γ ∧ X ^ γ ≤ 101 / 100 := fun γ hγ =>
    ⟨Real.rpow_nonneg h0 γ, le_trans (Real.rpow_le_one h0 h1 hγ) (by norm_num)⟩
  have p10 : ∀ k : ℝ, 0 ≤ k → 0 ≤ (10:ℝ) ^ (k * (X - 1)) ∧ (10:ℝ) ^ (k * (X - 1)) ≤ 101 / 100 := by
    intro k hk
    refine ⟨(Real.rpow_pos_of_pos (by norm_num) _).le, ?_⟩
    have : (10:ℝ) ^ (k * (X - 1)) ≤ (10:ℝ) ^ (0:ℝ) := Real.rpow_le_rpow_of_exponent_le (by norm_num) (by nlinarith)
    rw [Real.rpow_zero] at this; linarith
  simp only [thirteen, List.mem_cons, List.mem_nil_iff, or_false] at ht
  rcases ht with rfl | rfl | rfl | rfl | rfl | rfl | rfl | rfl | rfl | rfl | rfl | rfl | rfl
  · exact pw _ (by norm_num)
  · exact pw _ (by norm_num)
  · exact pw _ (by norm_num)
  · exact pw _ (by norm_num)
  · exact pw _ (by norm_num)
  · exact pw _ (by norm_num)
  · exact pw _ (by norm_num)
  · exact pw _ (by norm_num)
  · -- sRGB
    show 0 ≤ SrgbReal.specLinear X ∧ SrgbReal.specLinear X ≤ 101 / 100
    unfold SrgbReal.specLinear
    split
    · constructor
      · positivity
      · have : X / 12.92 ≤ 1 / 12.92 := div_le_div_of_nonneg_right h1 (by norm_num)
        have h2 : (1:ℝ) / 12.92 ≤ 1 := by norm_num
        linarith
    · have hb0 : 0 ≤ (X + 0.055) / 1.055 := by positivity
      have hb1 : (X + 0.055) / 1.055 ≤ 1 := by rw [div_le_one (by norm_num)]; linarith
      exact ⟨Real.rpow_nonneg hb0 _, le_trans (Real.rpow_le_one hb0 hb1 (by norm_num)) (by norm_num)⟩
  · exact p10 2 (by norm_num)
  · exact p10 (5 / 2) (by norm_num)
  · -- HLG
    show 0 ≤ hlgInvSpec X ∧ hlgInvSpec X ≤ 101 / 100
    unfold hlgInvSpec
    split
    · constructor
      · positivity
      · nlinarith
    · rename_i hgt
      obtain ⟨E1, E2⟩ := C10.hlg_E_range X (not_le.mp hgt).le h1
      constructor <;> linarith
  · show 0 ≤ X ∧ X ≤ 101 / 100
    exact ⟨h0, by linarith⟩

/-- `mapPxL` with a per-component pre/post-condition -/
theorem mapPxL_spec (f : Nat → Out Nat) (P Q : Nat → Prop) (hf : ∀ x, P x → ∃ r, f x = .ok r ∧ Q r) :
    ∀ l : List V3, (∀ p ∈ l, P p.x ∧ P p.y ∧ P p.z) → ∃ l', mapPxL f l = .ok l' ∧ ∀ q ∈ l', Q q.x ∧ Q q.y ∧ Q q.z := by
  intro l; induction l with
  | nil => intro _; exact ⟨[], rfl, by simp⟩
  | cons p ps ih =>
    intro h
    obtain ⟨hpx, hpy, hpz⟩ := h p (by simp)
    obtain ⟨a, ha, qa⟩ := hf p.x hpx; obtain ⟨b, hb, qb⟩ := hf p.y hpy; obtain ⟨c, hc, qc⟩ := hf p.z hpz
    obtain ⟨r, hr, qr⟩ := ih (fun q hq => h q (by simp [hq]))
    refine ⟨⟨a, b, c⟩ :: r, by simp only [mapPxL, ha, hb, hc, hr, Out.bind], ?_⟩
    intro q hq
    rcases List.mem_cons.mp hq with rfl | hq'
    · exact ⟨qa, qb, qc⟩
    · exact qr q hq'

/-- a component the theorem accepts: a finite float of `[0, 1]` -/
def Unit01 (x : Nat) : Prop := WF x ∧ Finite x ∧ 0 ≤ toReal x ∧ toReal x ≤ 1

/-- **C13, `Rgb -> LinearRgb` keeps finite data finite** -/
theorem rgbToLinear_finite (B : Build) (hB : B.fastmath = true) (hL10 : LibmLog10Accurate B.libm) (hLn : LibmLnAccurate B.libm)
    (rgb : Rgb) (ht : rgb.transfer ∈ thirteen) (hp : rgb.primaries ∈ C06.prims11)
    (hpx : ∀ p ∈ rgb.data.toList, Unit01 p.x ∧ Unit01 p.y ∧ Unit01 p.z) :
    ∃ img, rgbToLinear B rgb = .ok (.ok img) ∧ ∀ q ∈ img.data.toList, Finite q.x ∧ Finite q.y ∧ Finite q.z := by
  obtain ⟨⟨f, hf, hfw⟩, _⟩ := C03.accuracy B hB hL10 hLn rgb.transfer ht
  -- the transfer stage: finite results of magnitude at most 2
  have hstage : ∀ x, Unit01 x → ∃ r, f x = .ok r ∧ Bnd r 2 := by
    intro x ⟨hxw, hx, h0, h1⟩
    obtain ⟨r, h2, h3, h4⟩ := hfw x hxw hx h0 h1
    obtain ⟨s0, s1⟩ := specToLinear_range rgb.transfer ht (toReal x) h0 h1
    obtain ⟨a1, a2⟩ := abs_lt.mp h4
    exact ⟨r, h2, h3, by rw [abs_le]; constructor <;> linarith⟩
  obtain ⟨l', hl, hq⟩ := mapPxL_spec f Unit01 (fun r => Bnd r 2) hstage rgb.data.toList hpx
  unfold rgbToLinear toLinearImg
  rw [hf]
  simp only [mapPx, hl, Out.bind]
  -- the primaries stage
  by_cases h709 : rgb.primaries = .BT709
  · rw [h709, C06.same_primaries]
    refine ⟨_, rfl, ?_⟩
    intro q hq'
    have := hq q (by simpa using hq')
    exact ⟨this.1.1, this.2.1.1, this.2.2.1⟩
  · have hp10 : rgb.primaries ∈ CheckPrim.prims10 := by
      simp only [C06.prims11, List.mem_cons, List.mem_nil_iff, or_false] at hp
      simp only [CheckPrim.prims10, List.mem_cons, List.mem_nil_iff, or_false]
      rcases hp with h | h | h | h | h | h | h | h | h | h | h
      · exact absurd h h709
      all_goals simp [h]
    -- the matrix exists (take any pixel, e.g. the zero pixel, to extract it)
    have hz : Bnd 0 2 := ⟨c_zero.1, by rw [c_zero.2]; norm_num⟩
    obtain ⟨t, s, hm, _, _, _⟩ := C06.prim_close B.fma rgb.primaries hp10 true ⟨0, 0, 0⟩ hz hz hz
    simp only [if_true] at hm
    unfold transformPrimaries
    rw [hm]
    refine ⟨_, rfl, ?_⟩
    intro q hq'
    simp only [Array.toList_map, List.mem_map] at hq'
    obtain ⟨p, hpmem, rfl⟩ := hq'
    have hb := hq p (by simpa using hpmem)
    obtain ⟨t', s', hm', _, hfin, _⟩ := C06.prim_close B.fma rgb.primaries hp10 true p hb.1 hb.2.1 hb.2.2
    simp only [if_true] at hm'
    rw [hm] at hm'
    injection hm' with hm'
    injection hm' with hm'
    subst hm'
    dsimp only at hfin
    exact ⟨hfin.1.1, hfin.2.1.1, hfin.2.2.1⟩

end C13
