import Props.C03
/-! C10 — gamma->linear->gamma: the exact clause (Linear round-trips bit-exactly for every image). The 2.5e-4 / 5.7e-4 bounds
for the other 13 curves over all floats of [0,1] are checked by correspondence + exhaustive oracle, not proved (partial). -/
namespace C10
open TransferM Api Mat32

theorem linear_roundtrip (B : Build) (d : Array V3) :
    (toLinearImg B .Linear d = .ok (.ok d)) ∧ (toGammaImg B .Linear d = .ok (.ok d)) := C03.linear_identity B d

/-- aliases round-trip through the same two functions as BT.1886 -/
theorem alias_roundtrip (B : Build) (t : TC) (ht : t = .ST170M ∨ t = .ST240M ∨ t = .BT2020Ten ∨ t = .BT2020Twelve) (x : Nat) :
    (match toLinearFn B t, toGammaFn B t with | .ok f, .ok g => (f x).bind g | _, _ => .ok 0) =
    (match toLinearFn B .BT1886, toGammaFn B .BT1886 with | .ok f, .ok g => (f x).bind g | _, _ => .ok 0) := by
  rw [(C03.aliases B t ht).1, (C03.aliases B t ht).2]

end C10
