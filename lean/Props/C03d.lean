import Props.C03c
/-! C03, Log100 / Log316, gamma -> linear direction (`10^(k (x - 1))`, `k = 2` or `2.5`; the value at `x ≤ 0` is the constant
`0.01` / `0.00316…`): within 2.5e-4 of the defining formula for every binary32 of `[0, 1]` (fastmath build, kernel-only). -/
namespace C03
open F32 MathM TransferM Real ExpPoly Horner

/-- `log₂ 10 ≤ 10/3` -/
theorem logb_two_ten : Real.logb 2 10 ≤ 10 / 3 := by
  rw [Real.logb_le_iff_le_rpow (by norm_num) (by norm_num)]
  have h : (10:ℝ) ^ (3:ℝ) ≤ ((2:ℝ) ^ ((10:ℝ) / 3)) ^ (3:ℝ) := by
    rw [← Real.rpow_mul (by norm_num)]
    have e : (10:ℝ) / 3 * 3 = ((10:ℕ):ℝ) := by norm_num
    rw [e, Real.rpow_natCast, show (3:ℝ) = ((3:ℕ):ℝ) by norm_num, Real.rpow_natCast]
    norm_num
  exact (Real.rpow_le_rpow_iff (by norm_num) (Real.rpow_nonneg (by norm_num) _) (by norm_num : (0:ℝ) < 3)).mp h

theorem logb_two_ten_pos : 0 ≤ Real.logb 2 10 := Real.logb_nonneg (by norm_num) (by norm_num)

/-- `10^w` under a small change of `w` -/
theorem ten_pow_pert (a δ : ℝ) (hδ : |δ| ≤ 1 / 10 ^ 4) : |(10:ℝ) ^ (a + δ) - (10:ℝ) ^ a| ≤ (3 * |δ|) * (10:ℝ) ^ a := by
  rw [Powf.rpow_as_two 10 (a + δ) (by norm_num), Powf.rpow_as_two 10 a (by norm_num)]
  have hl := logb_two_ten
  have hl0 := logb_two_ten_pos
  have e : Real.logb 2 10 * (a + δ) = Real.logb 2 10 * a + Real.logb 2 10 * δ := by ring
  rw [e]
  have hd : |Real.logb 2 10 * δ| ≤ (10 / 3) * |δ| := by
    rw [abs_mul, abs_of_nonneg hl0]; exact mul_le_mul_of_nonneg_right hl (abs_nonneg _)
  have := Powf.two_pow_pert_sharp (Real.logb 2 10 * a) (Real.logb 2 10 * δ) (by nlinarith [abs_nonneg δ])
  refine le_trans this ?_
  apply mul_le_mul_of_nonneg_right _ (Real.rpow_pos_of_pos (by norm_num) _).le
  nlinarith [abs_nonneg δ]

/-- what the logarithmic curves need from `powf` with base 10: relative accuracy `ε` for exponents in `[-3, 3]` -/
def Pow10Oracle (B : Build) (ε : ℝ) : Prop :=
  ∀ (c10 y : Nat), Finite c10 → toReal c10 = 10 → 8388608 ≤ c10 → c10 < 2139095040 → Finite y → |toReal y| ≤ 3 →
    ∃ r, powf B c10 y = .ok r ∧ Finite r ∧ |toReal r - (10:ℝ) ^ (toReal y)| ≤ ε * (10:ℝ) ^ (toReal y)

theorem fast_oracle10 (B : Build) (hB : B.fastmath = true) : Pow10Oracle B (2070 / 10 ^ 7) := by
  intro c10 y f10 v10 n1 n2 hy hY
  have hp : powf B c10 y = powfFast B.fma c10 y := by unfold powf; rw [if_pos hB]
  obtain ⟨Y1, Y2⟩ := abs_le.mp hY
  have hpw_lo : 1 / 10 ^ 35 ≤ (toReal c10) ^ (toReal y) := by
    rw [v10]
    have : (10:ℝ) ^ (-3:ℝ) ≤ (10:ℝ) ^ (toReal y) := Real.rpow_le_rpow_of_exponent_le (by norm_num) Y1
    have e : (10:ℝ) ^ (-3:ℝ) = 1 / 1000 := by
      rw [show (-3:ℝ) = ((-3:ℤ):ℝ) by norm_num, Real.rpow_intCast]; norm_num
    rw [e] at this
    refine le_trans ?_ this; norm_num
  have hpw_hi : (toReal c10) ^ (toReal y) ≤ 10 ^ 35 := by
    rw [v10]
    have : (10:ℝ) ^ (toReal y) ≤ (10:ℝ) ^ (3:ℝ) := Real.rpow_le_rpow_of_exponent_le (by norm_num) Y2
    rw [show (3:ℝ) = ((3:ℕ):ℝ) by norm_num, Real.rpow_natCast] at this
    refine le_trans this ?_; norm_num
  obtain ⟨r, hr1, hr2, hr3⟩ := Powf.powf_close_tight B.fma c10 y n1 n2 hy (by linarith) hpw_lo hpw_hi
  rw [v10] at hr3
  refine ⟨r, by rw [hp]; exact hr1, hr2, le_trans hr3 ?_⟩
  apply mul_le_mul_of_nonneg_right _ (Real.rpow_pos_of_pos (by norm_num) _).le
  nlinarith [abs_nonneg (toReal y)]

/-- the power branch `powf(10, k * (x - 1))` -/
theorem pow10_branch (B : Build) (ε : ℝ) (ho : Pow10Oracle B ε) (hε : ε ≤ 1 / 1000) (c10 ck c1 : Nat) (K : ℝ)
    (h10 : Finite c10 ∧ toReal c10 = 10 ∧ 8388608 ≤ c10 ∧ c10 < 2139095040) (hk : Finite ck ∧ toReal ck = K) (hK1 : 2 ≤ K) (hK2 : K ≤ 5 / 2)
    (h1c : Finite c1 ∧ toReal c1 = 1 ∧ WF c1) (x : Nat) (hx : Finite x) (h0 : 0 ≤ toReal x) (h1 : toReal x ≤ 1) :
    ∃ r, powf B c10 (mul ck (sub x c1)) = .ok r ∧ Finite r ∧ |toReal r - (10:ℝ) ^ (K * (toReal x - 1))| ≤ ε * (1 + 1 / 10 ^ 4) + 3 / 10 ^ 6 := by
  have hu' : u = 1 / 16777216 := u_val
  have he' : eta ≤ 1 / 10 ^ 40 := eta_le
  set X := toReal x with hX
  obtain ⟨hsf, hse⟩ := sub_val x c1 h1c.2.2 hx h1c.1 (by rw [h1c.2.1]; apply fit_small; rw [abs_le]; constructor <;> linarith)
  rw [h1c.2.1] at hse
  set t := toReal (sub x c1) with ht
  have hX1abs : |X - 1| ≤ 1 := by rw [abs_le]; constructor <;> linarith
  have htabs : |t| ≤ 2 := by
    have := abs_sub_abs_le_abs_sub t (X - 1); rw [hu'] at hse; nlinarith
  obtain ⟨hyb, hye⟩ := mul_bnd ck (sub x c1) K 2 ⟨hk.1, by rw [hk.2, abs_of_nonneg (by linarith)]⟩ ⟨hsf, htabs⟩ (fit_small _ (by linarith))
  rw [hk.2] at hye
  set Y := toReal (mul ck (sub x c1)) with hY
  have hYd : |Y - K * (X - 1)| ≤ 1 / 10 ^ 6 := by
    have e : Y - K * (X - 1) = (Y - K * t) + K * (t - (X - 1)) := by ring
    rw [e]
    refine le_trans (abs_add_le _ _) ?_
    rw [abs_mul, abs_of_nonneg (by linarith : (0:ℝ) ≤ K)]
    rw [hu'] at hye hse
    have : K * |t - (X - 1)| ≤ (5 / 2) * (1 / 16777216 * |X - 1| + eta) := by
      apply mul_le_mul hK2 hse (abs_nonneg _) (by norm_num)
    nlinarith
  obtain ⟨d1, d2⟩ := abs_le.mp hYd
  have hYlo : -(5 / 2) - 1 / 10 ^ 5 ≤ Y := by nlinarith
  have hYhi : Y ≤ 1 / 10 ^ 5 := by nlinarith
  have hYabs : |Y| ≤ 3 := by rw [abs_le]; constructor <;> linarith
  obtain ⟨r, hr1, hr2, hr3⟩ := ho c10 (mul ck (sub x c1)) h10.1 h10.2.1 h10.2.2.1 h10.2.2.2 hyb.1 hYabs
  refine ⟨r, hr1, hr2, ?_⟩
  -- 10^Y ≤ 1.0001 and the change of exponent
  have h10Y : (10:ℝ) ^ Y ≤ 1 + 1 / 10 ^ 4 := by
    have h1' : (10:ℝ) ^ Y ≤ (10:ℝ) ^ ((1:ℝ) / 10 ^ 5) := Real.rpow_le_rpow_of_exponent_le (by norm_num) hYhi
    have h2' := ten_pow_pert 0 (1 / 10 ^ 5) (by rw [abs_of_pos (by positivity)]; norm_num)
    rw [zero_add, Real.rpow_zero, abs_of_pos (by positivity : (0:ℝ) < 1 / 10 ^ 5)] at h2'
    obtain ⟨_, q2⟩ := abs_le.mp h2'
    linarith
  have h10pos : 0 < (10:ℝ) ^ Y := Real.rpow_pos_of_pos (by norm_num) _
  have hpert := ten_pow_pert (K * (X - 1)) (Y - K * (X - 1)) (by linarith)
  have e : K * (X - 1) + (Y - K * (X - 1)) = Y := by ring
  rw [e] at hpert
  have hspec1 : (10:ℝ) ^ (K * (X - 1)) ≤ 1 := by
    have : (10:ℝ) ^ (K * (X - 1)) ≤ (10:ℝ) ^ (0:ℝ) := Real.rpow_le_rpow_of_exponent_le (by norm_num) (by nlinarith)
    rw [Real.rpow_zero] at this; exact this
  have hspec0 : 0 < (10:ℝ) ^ (K * (X - 1)) := Real.rpow_pos_of_pos (by norm_num) _
  have e2 : toReal r - (10:ℝ) ^ (K * (X - 1)) = (toReal r - (10:ℝ) ^ Y) + ((10:ℝ) ^ Y - (10:ℝ) ^ (K * (X - 1))) := by ring
  rw [e2]
  refine le_trans (abs_add_le _ _) ?_
  have hε0 : 0 ≤ ε := by
    have := le_trans (abs_nonneg _) hr3
    by_contra hc
    have hneg := not_le.mp hc
    nlinarith
  have hb1 : ε * (10:ℝ) ^ Y ≤ ε * (1 + 1 / 10 ^ 4) := mul_le_mul_of_nonneg_left h10Y hε0
  have hb2 : 3 * |Y - K * (X - 1)| * (10:ℝ) ^ (K * (X - 1)) ≤ 3 * (1 / 10 ^ 6) * 1 := by
    apply mul_le_mul _ hspec1 hspec0.le (by norm_num)
    nlinarith
  linarith

/-- what the property says about a curve whose defining formula is an arbitrary real function -/
def CurveWithinF (f : Nat → Out Nat) (spec : ℝ → ℝ) : Prop :=
  ∀ x : Nat, WF x → Finite x → 0 ≤ toReal x → toReal x ≤ 1 →
    ∃ r, f x = .ok r ∧ Finite r ∧ |toReal r - spec (toReal x)| < 25 / 10 ^ 5

/-- the constants of the two functions, evaluated exactly -/
theorem cert_log :
    finiteB C.log100_inverse_oetf_f0 = true ∧ ratOf C.log100_inverse_oetf_f0 = 0 ∧
    finiteB C.log100_inverse_oetf_f1 = true ∧ |ratOf C.log100_inverse_oetf_f1 - 1 / 100| ≤ 1 / 10 ^ 8 ∧
    finiteB C.log100_inverse_oetf_f2 = true ∧ ratOf C.log100_inverse_oetf_f2 = 10 ∧ 8388608 ≤ C.log100_inverse_oetf_f2 ∧ C.log100_inverse_oetf_f2 < 2139095040 ∧
    finiteB C.log100_inverse_oetf_f3 = true ∧ ratOf C.log100_inverse_oetf_f3 = 2 ∧
    finiteB C.log100_inverse_oetf_f4 = true ∧ ratOf C.log100_inverse_oetf_f4 = 1 ∧ C.log100_inverse_oetf_f4 < 4294967296 ∧
    finiteB C.log316_inverse_oetf_f0 = true ∧ ratOf C.log316_inverse_oetf_f0 = 0 ∧
    finiteB C.log316_inverse_oetf_f1 = true ∧ 31622 / 10 ^ 7 ≤ ratOf C.log316_inverse_oetf_f1 ∧
      (ratOf C.log316_inverse_oetf_f1 - 1 / 10 ^ 7) ^ 2 ≤ 1 / 10 ^ 5 ∧ 1 / 10 ^ 5 ≤ (ratOf C.log316_inverse_oetf_f1 + 1 / 10 ^ 7) ^ 2 ∧
    finiteB C.log316_inverse_oetf_f2 = true ∧ ratOf C.log316_inverse_oetf_f2 = 10 ∧ 8388608 ≤ C.log316_inverse_oetf_f2 ∧ C.log316_inverse_oetf_f2 < 2139095040 ∧
    finiteB C.log316_inverse_oetf_f3 = true ∧ ratOf C.log316_inverse_oetf_f3 = 5 / 2 ∧
    finiteB C.log316_inverse_oetf_f4 = true ∧ ratOf C.log316_inverse_oetf_f4 = 1 ∧ C.log316_inverse_oetf_f4 < 4294967296 := by
  decide +kernel

theorem val_of (a : Nat) (q : ℚ) (h1 : finiteB a = true) (h2 : ratOf a = q) : Finite a ∧ toReal a = (q:ℝ) := by
  obtain ⟨f, v⟩ := Exp2.rat_val a h1
  exact ⟨f, by rw [v, h2]⟩

/-- the guard `x <= 0.0` on `[0, 1]`: true exactly at zero -/
theorem le_zero_iff (x z : Nat) (hx : Finite x) (hz : Finite z ∧ toReal z = 0) (h0 : 0 ≤ toReal x) : le x z = true ↔ toReal x = 0 := by
  rw [le_iff x z hx hz.1, hz.2]
  constructor
  · intro h; linarith
  · intro h; linarith

section oracle
variable (B : Build) (ε : ℝ) (ho : Pow10Oracle B ε) (hε : ε ≤ 1 / 1000)
include ho hε

theorem log100_to_linear_o : CurveWithinB (log100_inverse_oetf B) (fun X => (10:ℝ) ^ (2 * (X - 1))) (ε * (1 + 1 / 10 ^ 4) + 3 / 10 ^ 6) := by
  obtain ⟨a1, a2, b1, b2, c1, c2, c3, c4, d1, d2, e1, e2, e3, _⟩ := cert_log
  intro x hxw hx h0 h1
  unfold log100_inverse_oetf
  by_cases hle : le x C.log100_inverse_oetf_f0 = true
  · rw [if_pos hle]
    have hX0 := (le_zero_iff x _ hx (zero_of _ a1 a2) h0).mp hle
    obtain ⟨fc, vc⟩ := Exp2.rat_val _ b1
    refine ⟨_, rfl, fc, ?_⟩
    show |toReal C.log100_inverse_oetf_f1 - (10:ℝ) ^ (2 * (toReal x - 1))| ≤ ε * (1 + 1 / 10 ^ 4) + 3 / 10 ^ 6
    have hε0 : 0 ≤ ε := by
      obtain ⟨fz, vz⟩ := zero_of _ a1 a2
      obtain ⟨_, _, _, hq⟩ := ho C.log100_inverse_oetf_f2 C.log100_inverse_oetf_f0 (val_of _ _ c1 c2).1 (by rw [(val_of _ _ c1 c2).2]; norm_num) c3 c4 fz (by rw [vz]; norm_num)
      have hp : 0 < (10:ℝ) ^ (toReal C.log100_inverse_oetf_f0) := Real.rpow_pos_of_pos (by norm_num) _
      have := le_trans (abs_nonneg _) hq
      by_contra hc
      nlinarith [not_le.mp hc]
    rw [hX0, vc]
    have e : (10:ℝ) ^ (2 * ((0:ℝ) - 1)) = 1 / 100 := by
      rw [show (2 * ((0:ℝ) - 1)) = ((-2:ℤ):ℝ) by norm_num, Real.rpow_intCast]; norm_num
    rw [e]
    have := (Rat.cast_le (K := ℝ)).mpr b2
    push_cast at this
    refine le_trans this ?_
    nlinarith
  · rw [if_neg hle]
    obtain ⟨r, hr1, hr2, hr3⟩ := pow10_branch B ε ho hε _ _ _ 2 ⟨(val_of _ _ c1 c2).1, by rw [(val_of _ _ c1 c2).2]; norm_num, c3, c4⟩
      ⟨(val_of _ _ d1 d2).1, by rw [(val_of _ _ d1 d2).2]; norm_num⟩ (by norm_num) (by norm_num)
      ⟨(val_of _ _ e1 e2).1, by rw [(val_of _ _ e1 e2).2]; norm_num, e3⟩ x hx h0 h1
    exact ⟨r, hr1, hr2, hr3⟩

theorem log316_to_linear_o : CurveWithinB (log316_inverse_oetf B) (fun X => (10:ℝ) ^ ((5 / 2) * (X - 1))) (ε * (1 + 1 / 10 ^ 4) + 3 / 10 ^ 6) := by
  obtain ⟨_, _, _, _, _, _, _, _, _, _, _, _, _, a1, a2, b1, b2, b3, b4, c1, c2, c3, c4, d1, d2, e1, e2, e3⟩ := cert_log
  intro x hxw hx h0 h1
  unfold log316_inverse_oetf
  by_cases hle : le x C.log316_inverse_oetf_f0 = true
  · rw [if_pos hle]
    have hX0 := (le_zero_iff x _ hx (zero_of _ a1 a2) h0).mp hle
    obtain ⟨fc, vc⟩ := Exp2.rat_val _ b1
    refine ⟨_, rfl, fc, ?_⟩
    show |toReal C.log316_inverse_oetf_f1 - (10:ℝ) ^ ((5 / 2) * (toReal x - 1))| ≤ ε * (1 + 1 / 10 ^ 4) + 3 / 10 ^ 6
    have hε0 : 0 ≤ ε := by
      obtain ⟨fz, vz⟩ := zero_of _ a1 a2
      obtain ⟨_, _, _, hq⟩ := ho C.log316_inverse_oetf_f2 C.log316_inverse_oetf_f0 (val_of _ _ c1 c2).1 (by rw [(val_of _ _ c1 c2).2]; norm_num) c3 c4 fz (by rw [vz]; norm_num)
      have hp : 0 < (10:ℝ) ^ (toReal C.log316_inverse_oetf_f0) := Real.rpow_pos_of_pos (by norm_num) _
      have := le_trans (abs_nonneg _) hq
      by_contra hc
      nlinarith [not_le.mp hc]
    rw [hX0, vc]
    set c := ((ratOf C.log316_inverse_oetf_f1 : ℚ) : ℝ) with hc
    set s := (10:ℝ) ^ ((5 / 2) * ((0:ℝ) - 1)) with hs
    have hspos : 0 < s := Real.rpow_pos_of_pos (by norm_num) _
    have hs2 : s ^ 2 = 1 / 10 ^ 5 := by
      rw [hs, ← Real.rpow_natCast, ← Real.rpow_mul (by norm_num)]
      rw [show ((5:ℝ) / 2 * ((0:ℝ) - 1) * ((2:ℕ):ℝ)) = ((-5:ℤ):ℝ) by norm_num, Real.rpow_intCast]; norm_num
    have hclo : (31622:ℝ) / 10 ^ 7 ≤ c := by have := (Rat.cast_le (K := ℝ)).mpr b2; push_cast at this; exact this
    have h3 : (c - 1 / 10 ^ 7) ^ 2 ≤ 1 / 10 ^ 5 := by have := (Rat.cast_le (K := ℝ)).mpr b3; push_cast at this; exact this
    have h4 : 1 / 10 ^ 5 ≤ (c + 1 / 10 ^ 7) ^ 2 := by have := (Rat.cast_le (K := ℝ)).mpr b4; push_cast at this; exact this
    have hlo : c - 1 / 10 ^ 7 ≤ s := by
      have := abs_le_of_sq_le_sq' (a := c - 1 / 10 ^ 7) (b := s) (by rw [hs2]; exact h3) hspos.le
      exact this.2
    have hhi : s ≤ c + 1 / 10 ^ 7 := by
      have := abs_le_of_sq_le_sq' (a := s) (b := c + 1 / 10 ^ 7) (by rw [hs2]; exact h4) (by linarith : (0:ℝ) ≤ c + 1 / 10 ^ 7)
      exact this.2
    rw [abs_le]; constructor <;> nlinarith
  · rw [if_neg hle]
    obtain ⟨r, hr1, hr2, hr3⟩ := pow10_branch B ε ho hε _ _ _ (5 / 2) ⟨(val_of _ _ c1 c2).1, by rw [(val_of _ _ c1 c2).2]; norm_num, c3, c4⟩
      ⟨(val_of _ _ d1 d2).1, by rw [(val_of _ _ d1 d2).2]; norm_num⟩ (by norm_num) (by norm_num)
      ⟨(val_of _ _ e1 e2).1, by rw [(val_of _ _ e1 e2).2]; norm_num, e3⟩ x hx h0 h1
    exact ⟨r, hr1, hr2, hr3⟩

end oracle

section fast
variable (B : Build) (hB : B.fastmath = true)
include hB

theorem log100_to_linear : CurveWithinF (log100_inverse_oetf B) (fun X => (10:ℝ) ^ (2 * (X - 1))) := by
  intro x hxw hx h0 h1
  obtain ⟨r, h2, h3, h4⟩ := log100_to_linear_o B _ (fast_oracle10 B hB) (by norm_num) x hxw hx h0 h1
  exact ⟨r, h2, h3, lt_of_le_of_lt h4 (by norm_num)⟩

theorem log316_to_linear : CurveWithinF (log316_inverse_oetf B) (fun X => (10:ℝ) ^ ((5 / 2) * (X - 1))) := by
  intro x hxw hx h0 h1
  obtain ⟨r, h2, h3, h4⟩ := log316_to_linear_o B _ (fast_oracle10 B hB) (by norm_num) x hxw hx h0 h1
  exact ⟨r, h2, h3, lt_of_le_of_lt h4 (by norm_num)⟩

/-- **C03, Log100 / Log316, gamma -> linear through the dispatch** -/
theorem log_to_linear_curves :
    (∃ f, toLinearFn B .Logarithmic100 = .ok f ∧ CurveWithinF f (fun X => (10:ℝ) ^ (2 * (X - 1)))) ∧
    (∃ f, toLinearFn B .Logarithmic316 = .ok f ∧ CurveWithinF f (fun X => (10:ℝ) ^ ((5 / 2) * (X - 1)))) :=
  ⟨⟨_, rfl, log100_to_linear B hB⟩, ⟨_, rfl, log316_to_linear B hB⟩⟩

end fast

end C03
