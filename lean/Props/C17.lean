import Proofs.HslBasics
import Proofs.F32Sign
import Model.Types
/-! C17 — HSL conversion (hexcone model). Proved here over the reals for every finite linear-RGB pixel of [0,1]^3:
`lightness`: L lies in [0,1] EXACTLY (monotonicity of rounding) and is within 1.3e-7 of (max+min)/2.
Further clauses are added below as they are proved; the remaining ones rest on the correspondence and the oracle. -/
namespace C17
open F32 Real PixelM

/-- finite pixels of the unit cube -/
structure Unit3 (p : Mat32.V3) : Prop where
  fx : Finite p.x
  fy : Finite p.y
  fz : Finite p.z
  bx : 0 ≤ toReal p.x ∧ toReal p.x ≤ 1
  bY : 0 ≤ toReal p.y ∧ toReal p.y ≤ 1
  bz : 0 ≤ toReal p.z ∧ toReal p.z ≤ 1

/-- hexcone quantities of a real pixel -/
noncomputable def mx (x y z : ℝ) : ℝ := Max.max (Max.max x y) z
noncomputable def mn (x y z : ℝ) : ℝ := Min.min (Min.min x y) z
noncomputable def specL (x y z : ℝ) : ℝ := (mx x y z + mn x y z) / 2

theorem mx_mn_bounds (x y z : ℝ) (hx : 0 ≤ x ∧ x ≤ 1) (hy : 0 ≤ y ∧ y ≤ 1) (hz : 0 ≤ z ∧ z ≤ 1) :
    0 ≤ mn x y z ∧ mn x y z ≤ mx x y z ∧ mx x y z ≤ 1 := by
  unfold mx mn
  refine ⟨le_min (le_min hx.1 hy.1) hz.1, ?_, max_le (max_le hx.2 hy.2) hz.2⟩
  exact le_trans (min_le_left _ _) (le_trans (min_le_left _ _) (le_trans (le_max_left _ _) (le_max_left _ _)))

/-- the model's `xmax`, `xmin` are finite and are the real maximum / minimum -/
theorem maxmin (p : Mat32.V3) (hp : Unit3 p) :
    Finite (F32.max (F32.max p.x p.y) p.z) ∧ Finite (F32.min (F32.min p.x p.y) p.z) ∧
    toReal (F32.max (F32.max p.x p.y) p.z) = mx (toReal p.x) (toReal p.y) (toReal p.z) ∧
    toReal (F32.min (F32.min p.x p.y) p.z) = mn (toReal p.x) (toReal p.y) (toReal p.z) := by
  obtain ⟨o1, v1⟩ := max_val p.x p.y hp.fx hp.fy
  have f1 : Finite (F32.max p.x p.y) := by rcases o1 with h | h <;> rw [h] <;> [exact hp.fx; exact hp.fy]
  obtain ⟨o2, v2⟩ := max_val _ p.z f1 hp.fz
  have f2 : Finite (F32.max (F32.max p.x p.y) p.z) := by rcases o2 with h | h <;> rw [h] <;> [exact f1; exact hp.fz]
  obtain ⟨o3, v3⟩ := min_val p.x p.y hp.fx hp.fy
  have f3 : Finite (F32.min p.x p.y) := by rcases o3 with h | h <;> rw [h] <;> [exact hp.fx; exact hp.fy]
  obtain ⟨o4, v4⟩ := min_val _ p.z f3 hp.fz
  have f4 : Finite (F32.min (F32.min p.x p.y) p.z) := by rcases o4 with h | h <;> rw [h] <;> [exact f3; exact hp.fz]
  exact ⟨f2, f4, by rw [v2, v1]; rfl, by rw [v4, v3]; rfl⟩

theorem fit1 (x : ℝ) (h : |x| ≤ 1000) : |x| < (2:ℝ) ^ (127:ℤ) := fit_small _ (by linarith)

/-- **lightness**: L is in [0,1] exactly and within 1.3e-7 of (max+min)/2 -/
theorem lightness (p : Mat32.V3) (hp : Unit3 p) :
    Finite (lrgbToHsl p).z ∧ 0 ≤ toReal (lrgbToHsl p).z ∧ toReal (lrgbToHsl p).z ≤ 1 ∧
    |toReal (lrgbToHsl p).z - specL (toReal p.x) (toReal p.y) (toReal p.z)| ≤ 13 / 100000000 := by
  obtain ⟨fM, fm, vM, vm⟩ := maxmin p hp
  obtain ⟨b0, b1, b2⟩ := mx_mn_bounds _ _ _ hp.bx hp.bY hp.bz
  set xmax := F32.max (F32.max p.x p.y) p.z
  set xmin := F32.min (F32.min p.x p.y) p.z
  set Mx := mx (toReal p.x) (toReal p.y) (toReal p.z)
  set Mn := mn (toReal p.x) (toReal p.y) (toReal p.z)
  have hz : (lrgbToHsl p).z = div (add xmax xmin) C.lrgb_to_hsl_f0 := rfl
  have h2 : C.lrgb_to_hsl_f0 = 0x40000000 := rfl
  rw [hz, h2]
  have hsum : |toReal xmax + toReal xmin| ≤ 2 := by rw [vM, vm, abs_le]; constructor <;> linarith
  obtain ⟨fs, es⟩ := add_val xmax xmin fM fm (fit1 _ (by linarith))
  have hs_ge : 0 ≤ toReal (add xmax xmin) := by
    have := add_ge xmax xmin 0 fM fm c_zero.1 (fit1 _ (by linarith)) (by rw [c_zero.2]; simp) (by rw [c_zero.2, vM, vm]; linarith)
    rw [c_zero.2] at this; exact this
  have hs_le : toReal (add xmax xmin) ≤ 2 := by
    have := add_le xmax xmin 0x40000000 fM fm c_two.1 (fit1 _ (by linarith)) (by rw [c_two.2]; exact fit1 _ (by norm_num)) (by rw [c_two.2, vM, vm]; linarith)
    rw [c_two.2] at this; exact this
  set S := toReal (add xmax xmin)
  obtain ⟨n, m, e, hv, hf⟩ := div_two_form (add xmax xmin) fs
  rw [hf]
  have hmag : (m:ℝ) * (2:ℝ) ^ e < (2:ℝ) ^ (127:ℤ) := by
    rw [← abs_valR n m e, hv]; exact fit1 _ (by rw [abs_le]; constructor <;> linarith)
  obtain ⟨fl, el⟩ := round_val n m e hmag
  obtain ⟨_, hle⟩ := round_le n m e 0x3f800000 c_one.1 hmag (by rw [c_one.2]; exact fit1 _ (by norm_num)) (by rw [hv, c_one.2]; linarith)
  obtain ⟨_, hge⟩ := round_ge n m e 0 c_zero.1 hmag (by rw [c_zero.2]; simp) (by rw [hv, c_zero.2]; linarith)
  rw [c_one.2] at hle; rw [c_zero.2] at hge
  refine ⟨fl, hge, hle, ?_⟩
  rw [hv] at el
  unfold specL
  have hu := u_val
  have he := eta_le
  rw [vM, vm] at es
  have h1 : u * |Mx + Mn| ≤ u * 2 := mul_le_mul_of_nonneg_left (by rw [abs_le]; constructor <;> linarith) u_pos.le
  have h2' : u * |S / 2| ≤ u * 1 := mul_le_mul_of_nonneg_left (by rw [abs_le]; constructor <;> linarith) u_pos.le
  rw [hu] at h1 h2' es el
  obtain ⟨e1, e2⟩ := abs_le.mp es
  obtain ⟨l1, l2⟩ := abs_le.mp el
  rw [abs_le]; constructor <;> linarith

/-- exact zero: finite with real value 0 (either sign of zero) -/
def Z (a : Nat) : Prop := Finite a ∧ toReal a = 0

theorem neg_one : Finite (F32.neg 0x3f800000) ∧ toReal (F32.neg 0x3f800000) = -1 := by
  obtain ⟨f, t⟩ := toReal_neg 0x3f800000 (by norm_num) c_one.1
  exact ⟨f, by rw [t, c_one.2]⟩

/-- **L = 0 is black and L = 1 is white**, for every finite hue in [0,360) and saturation in [0,1] (exact: each output
component has exactly the real value of L) -/
theorem black_white (p : Mat32.V3) (wh : WF p.x) (ws : WF p.y) (wl : WF p.z) (fh : Finite p.x) (fs : Finite p.y) (fl : Finite p.z)
    (hh : 0 ≤ toReal p.x ∧ toReal p.x < 360) (hs : 0 ≤ toReal p.y ∧ toReal p.y ≤ 1) (hl : toReal p.z = 0 ∨ toReal p.z = 1) :
    toReal (hslToLrgb p).x = toReal p.z ∧ toReal (hslToLrgb p).y = toReal p.z ∧ toReal (hslToLrgb p).z = toReal p.z := by
  have f1 := c_one; have f2 := c_two; have f0 := c_zero; have fn1 := neg_one
  have fitc : ∀ x : ℝ, |x| ≤ 1000 → |x| < (2:ℝ) ^ (127:ℤ) := fun x h => fit1 x h
  have hL1 : |toReal p.z| ≤ 1 := by rcases hl with h | h <;> rw [h] <;> norm_num
  -- t1 = fma 2 l (-1) is exactly ±1
  have ht1 : Finite (F32.fma 0x40000000 p.z (F32.neg 0x3f800000)) ∧ |toReal (F32.fma 0x40000000 p.z (F32.neg 0x3f800000))| = 1 := by
    have hfin : Finite (F32.fma 0x40000000 p.z (F32.neg 0x3f800000)) :=
      (fma_val _ _ _ f2.1 fl fn1.1 (fitc _ (by rw [f2.2, fn1.2]; rcases hl with h | h <;> rw [h] <;> norm_num))).1
    refine ⟨hfin, ?_⟩
    rcases hl with h | h
    · have := fma_exact 0x40000000 p.z (F32.neg 0x3f800000) (F32.neg 0x3f800000) f2.1 fl fn1.1 fn1.1 (fitc _ (by rw [fn1.2]; norm_num)) (by rw [f2.2, h, fn1.2]; norm_num)
      rw [this, fn1.2]; norm_num
    · have := fma_exact 0x40000000 p.z (F32.neg 0x3f800000) 0x3f800000 f2.1 fl fn1.1 f1.1 (fitc _ (by rw [f1.2]; norm_num)) (by rw [f2.2, h, fn1.2, f1.2]; norm_num)
      rw [this, f1.2]; norm_num
  obtain ⟨ft2, vt2⟩ := toReal_abs _ (fma_wf _ _ _) ht1.1
  rw [ht1.2] at vt2
  -- t3 = 1 - |t1| = 0
  have wt2 : WF (F32.abs (F32.fma 0x40000000 p.z (F32.neg 0x3f800000))) := abs_wf _ (fma_wf _ _ _)
  have ft3 : Finite (F32.sub 0x3f800000 (F32.abs (F32.fma 0x40000000 p.z (F32.neg 0x3f800000)))) :=
    (sub_val _ _ wt2 f1.1 ft2 (fitc _ (by rw [f1.2, vt2]; norm_num))).1
  have vt3 : toReal (F32.sub 0x3f800000 (F32.abs (F32.fma 0x40000000 p.z (F32.neg 0x3f800000)))) = 0 := by
    have := sub_exact 0x3f800000 _ 0 wt2 f1.1 ft2 f0.1 (fitc _ (by rw [f0.2]; norm_num)) (by rw [f1.2, vt2, f0.2]; norm_num)
    rw [this, f0.2]
  -- c = t3 * s = 0
  set t3 := F32.sub 0x3f800000 (F32.abs (F32.fma 0x40000000 p.z (F32.neg 0x3f800000)))
  have zc : Z (F32.mul t3 p.y) := by
    refine ⟨(mul_bnd t3 p.y 0 1 ⟨ft3, by rw [vt3]; simp⟩ ⟨fs, by rw [abs_le]; constructor <;> linarith [hs.1, hs.2]⟩ (fit_small _ (by norm_num))).1.1, ?_⟩
    have := mul_exact t3 p.y 0 ft3 fs f0.1 (fitc _ (by rw [f0.2]; norm_num)) (by rw [vt3, f0.2]; ring)
    rw [this, f0.2]
  set c := F32.mul t3 p.y
  -- hp = h / 60, finite
  have h60 : toReal (0x42700000 : Nat) ≠ 0 := by rw [c_sixty.2]; norm_num
  have fhp : Finite (F32.div p.x 0x42700000) := (div_val p.x 0x42700000 fh c_sixty.1 h60 (by
    rw [c_sixty.2, abs_div, abs_of_nonneg hh.1]
    have : toReal p.x / |(60:ℝ)| ≤ 6 := by rw [abs_of_pos (by norm_num : (0:ℝ) < 60), div_le_iff₀ (by norm_num)]; linarith [hh.2]
    refine le_trans this ?_
    have : (2:ℝ) ^ (3:ℤ) ≤ (2:ℝ) ^ (126:ℤ) := zpow_le_zpow_right₀ (by norm_num) (by norm_num)
    refine le_trans ?_ this; norm_num)).1
  -- fmod hp 2, finite and at most 2
  obtain ⟨ffm, bfm⟩ := fmod_fin (F32.div p.x 0x42700000) 0x40000000 fhp f2.1 (by rw [f2.2]; norm_num) (fitc _ (by rw [f2.2]; norm_num))
  rw [f2.2] at bfm
  have wfm1 : WF (0x3f800000 : Nat) := by unfold WF; norm_num
  obtain ⟨ft4, et4⟩ := sub_val (fmod (F32.div p.x 0x42700000) 0x40000000) 0x3f800000 wfm1 ffm f1.1 (fitc _ (by
    rw [f1.2]; have := abs_sub (toReal (fmod (F32.div p.x 0x42700000) 0x40000000)) 1; simp at this bfm; linarith))
  have bt4 : |toReal (F32.sub (fmod (F32.div p.x 0x42700000) 0x40000000) 0x3f800000)| ≤ 4 := by
    have h1 := abs_sub_abs_le_abs_sub (toReal (F32.sub (fmod (F32.div p.x 0x42700000) 0x40000000) 0x3f800000)) (toReal (fmod (F32.div p.x 0x42700000) 0x40000000) - toReal (0x3f800000 : Nat))
    have h2 : |toReal (fmod (F32.div p.x 0x42700000) 0x40000000) - toReal (0x3f800000 : Nat)| ≤ 3 := by
      rw [f1.2]; have := abs_sub (toReal (fmod (F32.div p.x 0x42700000) 0x40000000)) 1; simp at this bfm; linarith
    have hu := u_val; have he := eta_le
    have : u * |toReal (fmod (F32.div p.x 0x42700000) 0x40000000) - toReal (0x3f800000 : Nat)| ≤ u * 3 := mul_le_mul_of_nonneg_left h2 u_pos.le
    rw [hu] at this et4; linarith
  have wsub : ∀ a b, WF (F32.sub a b) := fun a b => add_wf _ _
  obtain ⟨ft5, vt5⟩ := toReal_abs _ (wsub _ _) ft4
  have ft6 : Finite (F32.sub 0x3f800000 (F32.abs (F32.sub (fmod (F32.div p.x 0x42700000) 0x40000000) 0x3f800000))) :=
    (sub_val _ _ (abs_wf _ (wsub _ _)) f1.1 ft5 (fitc _ (by
      rw [f1.2, vt5]; have := abs_sub (1:ℝ) |toReal (F32.sub (fmod (F32.div p.x 0x42700000) 0x40000000) 0x3f800000)|; simp at this; linarith))).1
  set t6 := F32.sub 0x3f800000 (F32.abs (F32.sub (fmod (F32.div p.x 0x42700000) 0x40000000) 0x3f800000))
  -- x = c * t6 = 0
  have zx : Z (F32.mul c t6) := by
    have hb6 : |toReal t6| < (2:ℝ) ^ (127:ℤ) := by
      obtain ⟨n, m, e, hd⟩ := ft6
      exact (fitc _ (by
        have hsv := sub_val 0x3f800000 (F32.abs (F32.sub (fmod (F32.div p.x 0x42700000) 0x40000000) 0x3f800000)) (abs_wf _ (wsub _ _)) f1.1 ft5 (fitc _ (by
          rw [f1.2, vt5]; have := abs_sub (1:ℝ) |toReal (F32.sub (fmod (F32.div p.x 0x42700000) 0x40000000) 0x3f800000)|; simp at this; linarith))
        have h1 := abs_sub_abs_le_abs_sub (toReal t6) (toReal (0x3f800000:Nat) - toReal (F32.abs (F32.sub (fmod (F32.div p.x 0x42700000) 0x40000000) 0x3f800000)))
        have h2 : |toReal (0x3f800000:Nat) - toReal (F32.abs (F32.sub (fmod (F32.div p.x 0x42700000) 0x40000000) 0x3f800000))| ≤ 5 := by
          rw [f1.2, vt5]; have := abs_sub (1:ℝ) |toReal (F32.sub (fmod (F32.div p.x 0x42700000) 0x40000000) 0x3f800000)|; simp at this; linarith
        have hu := u_val; have he := eta_le
        have : u * |toReal (0x3f800000:Nat) - toReal (F32.abs (F32.sub (fmod (F32.div p.x 0x42700000) 0x40000000) 0x3f800000))| ≤ u * 5 := mul_le_mul_of_nonneg_left h2 u_pos.le
        have e6 := hsv.2
        rw [hu] at this e6; linarith))
    have hfm : Finite (F32.mul c t6) := by
      obtain ⟨n1, m1, e1, h1⟩ := zc.1
      obtain ⟨n2, m2, e2, h2⟩ := ft6
      have hm1 : m1 = 0 := by
        have := zc.2; rw [toReal_of_decode _ _ _ _ h1] at this
        unfold valR at this
        have h2e : (2:ℝ) ^ e1 ≠ 0 := by positivity
        have : (m1:ℝ) = 0 := by
          rcases mul_eq_zero.mp this with h | h
          · split at h <;> norm_num at h
          · rcases mul_eq_zero.mp h with h' | h'
            · exact h'
            · exact absurd h' h2e
        exact_mod_cast this
      exact (mul_val c t6 n1 n2 m1 m2 e1 e2 h1 h2 (by intro hne; rw [hm1] at hne; simp at hne)).1
    refine ⟨hfm, ?_⟩
    have := mul_exact c t6 0 zc.1 ft6 f0.1 (fitc _ (by rw [f0.2]; norm_num)) (by rw [zc.2, f0.2]; ring)
    rw [this, f0.2]
  set x := F32.mul c t6
  -- m = l - c/2 = l
  obtain ⟨n, mm, e, hv, hf⟩ := div_two_form c zc.1
  have zdc : Z (F32.div c 0x40000000) := by
    rw [hf]
    rw [zc.2] at hv
    have hmag : (mm:ℝ) * (2:ℝ) ^ e < (2:ℝ) ^ (127:ℤ) := by rw [← abs_valR n mm e, hv]; simp
    obtain ⟨ff, hle⟩ := round_le n mm e 0 f0.1 hmag (by rw [f0.2]; simp) (by rw [hv, f0.2]; norm_num)
    obtain ⟨_, hge⟩ := round_ge n mm e 0 f0.1 hmag (by rw [f0.2]; simp) (by rw [hv, f0.2]; norm_num)
    rw [f0.2] at hle hge
    exact ⟨ff, le_antisymm hle hge⟩
  have hm : Finite (F32.sub p.z (F32.div c 0x40000000)) ∧ toReal (F32.sub p.z (F32.div c 0x40000000)) = toReal p.z := by
    have hfit : |toReal p.z - toReal (F32.div c 0x40000000)| < (2:ℝ) ^ (127:ℤ) := fitc _ (by rw [zdc.2, sub_zero]; linarith)
    refine ⟨(sub_val _ _ (div_wf _ _) fl zdc.1 hfit).1, ?_⟩
    exact sub_exact p.z _ p.z (div_wf _ _) fl zdc.1 fl (fitc _ (by linarith)) (by rw [zdc.2, sub_zero])
  set m := F32.sub p.z (F32.div c 0x40000000)
  -- every component of rgb1 is an exact zero, so every output is exactly L
  have key : ∀ a : Nat, Z a → toReal (F32.add a m) = toReal p.z := by
    intro a za
    exact add_exact a m p.z za.1 hm.1 fl (fitc _ (by linarith)) (by rw [za.2, hm.2, zero_add])
  have zz : Z (0 : Nat) := ⟨f0.1, f0.2⟩
  have hout : ∃ r g b : Nat, Z r ∧ Z g ∧ Z b ∧ hslToLrgb p = ⟨F32.add r m, F32.add g m, F32.add b m⟩ := by
    unfold hslToLrgb
    simp only []
    split_ifs
    all_goals first
      | exact ⟨c, x, _, zc, zx, zz, rfl⟩
      | exact ⟨x, c, _, zx, zc, zz, rfl⟩
      | exact ⟨_, c, x, zz, zc, zx, rfl⟩
      | exact ⟨_, x, c, zz, zx, zc, rfl⟩
      | exact ⟨x, _, c, zx, zz, zc, rfl⟩
      | exact ⟨c, _, x, zc, zz, zx, rfl⟩
  obtain ⟨r, g, b, zr, zg, zb, ho⟩ := hout
  rw [ho]
  exact ⟨key r zr, key g zg, key b zb⟩

/-- well-formed bit patterns (below 2^32), as every `f32` is -/
structure Wf3 (p : Mat32.V3) : Prop where
  wx : WF p.x
  wy : WF p.y
  wz : WF p.z

theorem max_wf (a b : Nat) (ha : WF a) (hb : WF b) : WF (F32.max a b) := by unfold F32.max; split_ifs <;> assumption
theorem min_wf (a b : Nat) (ha : WF a) (hb : WF b) : WF (F32.min a b) := by unfold F32.min; split_ifs <;> assumption

/-- twice a finite value of magnitude at most 1 is representable -/
theorem double_rep (a : Nat) (ha : Finite a) (hb : |toReal a| ≤ 1) : ∃ r, F32.Finite r ∧ toReal r = 2 * toReal a := by
  obtain ⟨n, m, e, h⟩ := ha
  have hm := decode_mant_lt a n m e h
  have he : -149 ≤ e := by
    unfold decode at h
    simp only [consts.2.2.1, consts.2.2.2.2.2.1, consts.2.2.2.1] at h
    split at h
    · split at h <;> cases h
    · split at h
      · injection h with _ _ he; omega
      · injection h with _ _ he; omega
  rw [toReal_of_decode _ _ _ _ h, abs_valR] at hb
  have hfit : (m:ℝ) * (2:ℝ) ^ (e + 1) < (2:ℝ) ^ (127:ℤ) := by
    rw [zpow_add_one₀ (by norm_num : (2:ℝ) ≠ 0), ← mul_assoc]
    exact fit_small _ (by linarith)
  obtain ⟨m', e', hd, hv⟩ := roundPack_exact n m (e + 1) hm (by omega) hfit
  refine ⟨roundPack n m (e + 1), ⟨_, _, _, hd⟩, ?_⟩
  rw [toReal_of_decode _ _ _ _ hd, toReal_of_decode _ _ _ _ h]
  unfold valR; rw [hv, zpow_add_one₀ (by norm_num : (2:ℝ) ≠ 0)]; ring

/-- L never exceeds the maximum component (monotonicity of the two roundings) -/
theorem l_le_max (p : Mat32.V3) (hp : Unit3 p) :
    toReal (lrgbToHsl p).z ≤ toReal (F32.max (F32.max p.x p.y) p.z) := by
  obtain ⟨fM, fm, vM, vm⟩ := maxmin p hp
  obtain ⟨b0, b1, b2⟩ := mx_mn_bounds _ _ _ hp.bx hp.bY hp.bz
  set xmax := F32.max (F32.max p.x p.y) p.z
  set xmin := F32.min (F32.min p.x p.y) p.z
  have hz : (lrgbToHsl p).z = div (add xmax xmin) 0x40000000 := rfl
  rw [hz]
  have hMx1 : |toReal xmax| ≤ 1 := by rw [vM, abs_le]; constructor <;> linarith
  obtain ⟨r, fr, vr⟩ := double_rep xmax fM hMx1
  have hsum : |toReal xmax + toReal xmin| ≤ 2 := by rw [vM, vm, abs_le]; constructor <;> linarith
  have hS : toReal (add xmax xmin) ≤ 2 * toReal xmax :=
    by have := add_le xmax xmin r fM fm fr (fit1 _ (by linarith)) (by rw [vr]; exact fit1 _ (by rw [abs_mul]; norm_num; linarith)) (by rw [vr, vM, vm]; linarith)
       rw [vr] at this; exact this
  obtain ⟨fs, _⟩ := add_val xmax xmin fM fm (fit1 _ (by linarith))
  have hS0 : 0 ≤ toReal (add xmax xmin) := by
    have := add_ge xmax xmin 0 fM fm c_zero.1 (fit1 _ (by linarith)) (by rw [c_zero.2]; simp) (by rw [c_zero.2, vM, vm]; linarith)
    rw [c_zero.2] at this; exact this
  obtain ⟨n, m, e, hv, hf⟩ := div_two_form (add xmax xmin) fs
  rw [hf]
  have hmag : (m:ℝ) * (2:ℝ) ^ e < (2:ℝ) ^ (127:ℤ) := by
    rw [← abs_valR n m e, hv]; exact fit1 _ (by rw [abs_le]; constructor <;> linarith [abs_le.mp hMx1])
  exact (round_le n m e xmax fM hmag (fit1 _ (by linarith)) (by rw [hv]; linarith)).2

theorem rep_lo : Finite 0xbf7ffffc ∧ toReal 0xbf7ffffc = -(1 - 1 / 4194304) := by
  have h : decode 0xbf7ffffc = .fin true 16777212 (-24) := by decide +kernel
  refine ⟨⟨_, _, _, h⟩, ?_⟩
  rw [toReal_of_decode _ _ _ _ h]; unfold valR
  have : (2:ℝ) ^ (-24:ℤ) = 1 / 16777216 := by rw [zpow_neg, one_div]; norm_num
  rw [this]; norm_num
theorem rep_hi : Finite 0x3f7ffffe ∧ toReal 0x3f7ffffe = 1 - 1 / 8388608 := by
  have h : decode 0x3f7ffffe = .fin false 16777214 (-24) := by decide +kernel
  refine ⟨⟨_, _, _, h⟩, ?_⟩
  rw [toReal_of_decode _ _ _ _ h]; unfold valR
  have : (2:ℝ) ^ (-24:ℤ) = 1 / 16777216 := by rw [zpow_neg, one_div]; norm_num
  rw [this]; norm_num

set_option maxHeartbeats 2000000 in
/-- **saturation range**: S is finite and lies in [0,1] exactly -/
theorem saturation_range (p : Mat32.V3) (hp : Unit3 p) (hw : Wf3 p) :
    Finite (lrgbToHsl p).y ∧ 0 ≤ toReal (lrgbToHsl p).y ∧ toReal (lrgbToHsl p).y ≤ 1 := by
  obtain ⟨fL, L0, L1, _⟩ := lightness p hp
  have hLM := l_le_max p hp
  obtain ⟨fM, fm, vM, vm⟩ := maxmin p hp
  obtain ⟨b0, b1, b2⟩ := mx_mn_bounds _ _ _ hp.bx hp.bY hp.bz
  set xmax := F32.max (F32.max p.x p.y) p.z
  set xmin := F32.min (F32.min p.x p.y) p.z
  have hlz : (lrgbToHsl p).z = div (add xmax xmin) 0x40000000 := rfl
  rw [hlz] at fL L0 L1 hLM
  set l := div (add xmax xmin) 0x40000000 with hl
  have wl : WF l := div_wf _ _
  have hs : (lrgbToHsl p).y = (if (F32.lt (F32.abs l) EPSILON || F32.lt (F32.abs (F32.sub l 0x3f800000)) EPSILON) then 0
      else F32.min (F32.div (F32.mul 0x40000000 (F32.sub xmax l)) (F32.sub 0x3f800000 (F32.abs (F32.fma 0x40000000 l (F32.neg 0x3f800000))))) 0x3f800000) := rfl
  rw [hs]
  have f0 := c_zero; have f1 := c_one; have f2 := c_two; have fe := c_eps; have fn1 := neg_one
  have hE : EPSILON = 0x34000000 := rfl
  split
  · exact ⟨f0.1, by rw [f0.2], by rw [f0.2]; norm_num⟩
  · rename_i hg
    simp only [Bool.or_eq_true, not_or, Bool.not_eq_true] at hg
    obtain ⟨g1, g2⟩ := hg
    rw [hE] at g1 g2
    -- L ≥ EPS
    obtain ⟨fal, val⟩ := toReal_abs l wl fL
    have hLlo : 1 / 8388608 ≤ toReal l := by
      have : ¬ (toReal (F32.abs l) < toReal (0x34000000 : Nat)) := fun h => by
        have h2 := (lt_iff _ _ fal fe.1).mpr h; rw [g1] at h2; exact Bool.false_ne_true h2
      rw [val, fe.2, abs_of_nonneg L0] at this; linarith
    -- 1 - L ≥ 2^-24
    have w1 : WF (0x3f800000 : Nat) := by unfold WF; norm_num
    obtain ⟨fs1, es1⟩ := sub_val l 0x3f800000 w1 fL f1.1 (fit1 _ (by rw [f1.2, abs_le]; constructor <;> linarith))
    obtain ⟨fas1, vas1⟩ := toReal_abs (F32.sub l 0x3f800000) (add_wf _ _) fs1
    have hLhi : toReal l ≤ 1 - 1 / 16777216 := by
      have hge : ¬ (toReal (F32.abs (F32.sub l 0x3f800000)) < toReal (0x34000000 : Nat)) := fun h => by
        have h2 := (lt_iff _ _ fas1 fe.1).mpr h; rw [g2] at h2; exact Bool.false_ne_true h2
      rw [vas1, fe.2] at hge
      push Not at hge
      rw [f1.2] at es1
      have hu := u_val; have he := eta_le
      have h1 : |toReal l - 1| ≤ 1 := by rw [abs_le]; constructor <;> linarith
      have h2 : u * |toReal l - 1| ≤ u * 1 := mul_le_mul_of_nonneg_left h1 u_pos.le
      rw [hu] at h2 es1
      have h3 := abs_sub_abs_le_abs_sub (toReal (F32.sub l 0x3f800000)) (toReal l - 1)
      have h4 : |toReal l - 1| = 1 - toReal l := by rw [abs_of_nonpos (by linarith)]; ring
      rw [h4] at h3 h2 es1
      by_contra hc; push Not at hc
      -- then 1 - L < 2^-24 and |fl| ≤ (1-L)(1+u) + eta < 2^-23
      nlinarith
    -- t = fma 2 l (-1) in [-(1-2^-22), 1-2^-23]
    have hfitt : |toReal (0x40000000 : Nat) * toReal l + toReal (F32.neg 0x3f800000)| < (2:ℝ) ^ (127:ℤ) :=
      fit1 _ (by rw [f2.2, fn1.2, abs_le]; constructor <;> linarith)
    obtain ⟨ft, _⟩ := fma_val 0x40000000 l (F32.neg 0x3f800000) f2.1 fL fn1.1 hfitt
    have tlo := fma_ge 0x40000000 l (F32.neg 0x3f800000) 0xbf7ffffc f2.1 fL fn1.1 rep_lo.1 hfitt (fit1 _ (by rw [rep_lo.2]; norm_num))
      (by rw [rep_lo.2, f2.2, fn1.2]; linarith)
    have thi := fma_le 0x40000000 l (F32.neg 0x3f800000) 0x3f7ffffe f2.1 fL fn1.1 rep_hi.1 hfitt (fit1 _ (by rw [rep_hi.2]; norm_num))
      (by rw [rep_hi.2, f2.2, fn1.2]; linarith)
    rw [rep_lo.2] at tlo; rw [rep_hi.2] at thi
    set t := F32.fma 0x40000000 l (F32.neg 0x3f800000)
    obtain ⟨fat, vat⟩ := toReal_abs t (fma_wf _ _ _) ft
    have hat : |toReal t| ≤ 1 - 1 / 8388608 := by rw [abs_le]; constructor <;> linarith
    -- den = 1 - |t| ≥ 2^-23
    have wat : WF (F32.abs t) := abs_wf _ (fma_wf _ _ _)
    have hfitd : |toReal (0x3f800000 : Nat) - toReal (F32.abs t)| < (2:ℝ) ^ (127:ℤ) :=
      fit1 _ (by rw [f1.2, vat, abs_le]; constructor <;> linarith [abs_nonneg (toReal t)])
    obtain ⟨fden, eden⟩ := sub_val 0x3f800000 (F32.abs t) wat f1.1 fat hfitd
    have dlo := sub_ge 0x3f800000 (F32.abs t) 0x34000000 wat f1.1 fat fe.1 hfitd (fit1 _ (by rw [fe.2]; norm_num)) (by rw [fe.2, f1.2, vat]; linarith)
    rw [fe.2] at dlo
    set den := F32.sub 0x3f800000 (F32.abs t)
    have dhi : toReal den ≤ 2 := by
      rw [f1.2, vat] at eden
      have hu := u_val; have he := eta_le
      have h1 : abs (1 - |toReal t|) ≤ 1 := by rw [abs_le]; constructor <;> linarith [abs_nonneg (toReal t)]
      have h2 : u * abs (1 - |toReal t|) ≤ u * 1 := mul_le_mul_of_nonneg_left h1 u_pos.le
      rw [hu] at h2 eden
      have := abs_sub_abs_le_abs_sub (toReal den) (1 - |toReal t|)
      have := le_abs_self (toReal den)
      linarith
    -- num = 2 (v - l) ≥ 0
    have hMx1 : toReal xmax ≤ 1 := by rw [vM]; exact b2
    have hMx0 : 0 ≤ toReal xmax := by rw [vM]; linarith
    have hfitn : |toReal xmax - toReal l| < (2:ℝ) ^ (127:ℤ) := fit1 _ (by rw [abs_le]; constructor <;> linarith)
    obtain ⟨fvl, evl⟩ := sub_val xmax l wl fM fL hfitn
    have vl0 := sub_ge xmax l 0 wl fM fL f0.1 hfitn (by rw [f0.2]; simp) (by rw [f0.2]; linarith)
    rw [f0.2] at vl0
    have vl1 := sub_le xmax l 0x3f800000 wl fM fL f1.1 hfitn (fit1 _ (by rw [f1.2]; norm_num)) (by rw [f1.2]; linarith)
    rw [f1.2] at vl1
    set vl := F32.sub xmax l
    have hfitm : |toReal (0x40000000 : Nat) * toReal vl| < (2:ℝ) ^ (127:ℤ) := fit1 _ (by rw [f2.2, abs_le]; constructor <;> linarith)
    have fnum : Finite (F32.mul 0x40000000 vl) := (mul_bnd 0x40000000 vl 2 1 ⟨f2.1, by rw [f2.2]; norm_num⟩ ⟨fvl, by rw [abs_le]; constructor <;> linarith⟩ (fit_small _ (by norm_num))).1.1
    have n0 := mul_ge 0x40000000 vl 0 f2.1 fvl f0.1 hfitm (by rw [f0.2]; simp) (by rw [f0.2, f2.2]; linarith)
    rw [f0.2] at n0
    have n1 := mul_le 0x40000000 vl 0x40000000 f2.1 fvl f2.1 hfitm (fit1 _ (by rw [f2.2]; norm_num)) (by rw [f2.2]; linarith)
    rw [f2.2] at n1
    set num := F32.mul 0x40000000 vl
    -- quotient
    have hdpos : 0 < toReal den := by linarith
    have hq : |toReal num / toReal den| ≤ (2:ℝ) ^ (126:ℤ) := by
      rw [abs_div, abs_of_nonneg n0, abs_of_pos hdpos, div_le_iff₀ hdpos]
      have h1 : (2:ℝ) ^ (25:ℤ) ≤ (2:ℝ) ^ (126:ℤ) := zpow_le_zpow_right₀ (by norm_num) (by norm_num)
      have h2 : (2:ℝ) ^ (25:ℤ) = 33554432 := by norm_num
      have hp : (0:ℝ) < (2:ℝ) ^ (126:ℤ) := by positivity
      nlinarith
    obtain ⟨fq, _⟩ := div_val num den fnum fden hdpos.ne' hq
    have q0 := div_nonneg_val num den fnum fden n0 hdpos hq
    -- min with 1
    obtain ⟨om, vmn⟩ := min_val (F32.div num den) 0x3f800000 fq f1.1
    refine ⟨by rcases om with h | h <;> rw [h] <;> [exact fq; exact f1.1], ?_, ?_⟩
    · rw [vmn, f1.2]; exact le_min q0 (by norm_num)
    · rw [vmn, f1.2]; exact min_le_right _ _

end C17
