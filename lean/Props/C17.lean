import Proofs.HslBasics
import Model.Types
/-! C17 — HSL conversion (hexcone model). Proved here over the reals for every finite linear-RGB pixel of [0,1]^3:
`lightness`: L lies in [0,1] EXACTLY (monotonicity of rounding) and is within 1.3e-7 of (max+min)/2.
Further clauses are added below as they are proved; the remaining ones rest on the correspondence and the oracle. -/
namespace C17
open F32 Real PixelM

/-- finite pixels of the unit cube -/
structure Unit3 (p : Mat32.V3) : Prop where
  fx : Finite p.x
  fy : Finite p.y
  fz : Finite p.z
  bx : 0 ≤ toReal p.x ∧ toReal p.x ≤ 1
  bY : 0 ≤ toReal p.y ∧ toReal p.y ≤ 1
  bz : 0 ≤ toReal p.z ∧ toReal p.z ≤ 1

/-- hexcone quantities of a real pixel -/
noncomputable def mx (x y z : ℝ) : ℝ := Max.max (Max.max x y) z
noncomputable def mn (x y z : ℝ) : ℝ := Min.min (Min.min x y) z
noncomputable def specL (x y z : ℝ) : ℝ := (mx x y z + mn x y z) / 2

theorem mx_mn_bounds (x y z : ℝ) (hx : 0 ≤ x ∧ x ≤ 1) (hy : 0 ≤ y ∧ y ≤ 1) (hz : 0 ≤ z ∧ z ≤ 1) :
    0 ≤ mn x y z ∧ mn x y z ≤ mx x y z ∧ mx x y z ≤ 1 := by
  unfold mx mn
  refine ⟨le_min (le_min hx.1 hy.1) hz.1, ?_, max_le (max_le hx.2 hy.2) hz.2⟩
  exact le_trans (min_le_left _ _) (le_trans (min_le_left _ _) (le_trans (le_max_left _ _) (le_max_left _ _)))

/-- the model's `xmax`, `xmin` are finite and are the real maximum / minimum -/
theorem maxmin (p : Mat32.V3) (hp : Unit3 p) :
    Finite (F32.max (F32.max p.x p.y) p.z) ∧ Finite (F32.min (F32.min p.x p.y) p.z) ∧
    toReal (F32.max (F32.max p.x p.y) p.z) = mx (toReal p.x) (toReal p.y) (toReal p.z) ∧
    toReal (F32.min (F32.min p.x p.y) p.z) = mn (toReal p.x) (toReal p.y) (toReal p.z) := by
  obtain ⟨o1, v1⟩ := max_val p.x p.y hp.fx hp.fy
  have f1 : Finite (F32.max p.x p.y) := by rcases o1 with h | h <;> rw [h] <;> [exact hp.fx; exact hp.fy]
  obtain ⟨o2, v2⟩ := max_val _ p.z f1 hp.fz
  have f2 : Finite (F32.max (F32.max p.x p.y) p.z) := by rcases o2 with h | h <;> rw [h] <;> [exact f1; exact hp.fz]
  obtain ⟨o3, v3⟩ := min_val p.x p.y hp.fx hp.fy
  have f3 : Finite (F32.min p.x p.y) := by rcases o3 with h | h <;> rw [h] <;> [exact hp.fx; exact hp.fy]
  obtain ⟨o4, v4⟩ := min_val _ p.z f3 hp.fz
  have f4 : Finite (F32.min (F32.min p.x p.y) p.z) := by rcases o4 with h | h <;> rw [h] <;> [exact f3; exact hp.fz]
  exact ⟨f2, f4, by rw [v2, v1]; rfl, by rw [v4, v3]; rfl⟩

theorem fit1 (x : ℝ) (h : |x| ≤ 1000) : |x| < (2:ℝ) ^ (127:ℤ) := fit_small _ (by linarith)

/-- **lightness**: L is in [0,1] exactly and within 1.3e-7 of (max+min)/2 -/
theorem lightness (p : Mat32.V3) (hp : Unit3 p) :
    Finite (lrgbToHsl p).z ∧ 0 ≤ toReal (lrgbToHsl p).z ∧ toReal (lrgbToHsl p).z ≤ 1 ∧
    |toReal (lrgbToHsl p).z - specL (toReal p.x) (toReal p.y) (toReal p.z)| ≤ 13 / 100000000 := by
  obtain ⟨fM, fm, vM, vm⟩ := maxmin p hp
  obtain ⟨b0, b1, b2⟩ := mx_mn_bounds _ _ _ hp.bx hp.bY hp.bz
  set xmax := F32.max (F32.max p.x p.y) p.z
  set xmin := F32.min (F32.min p.x p.y) p.z
  set Mx := mx (toReal p.x) (toReal p.y) (toReal p.z)
  set Mn := mn (toReal p.x) (toReal p.y) (toReal p.z)
  have hz : (lrgbToHsl p).z = div (add xmax xmin) C.lrgb_to_hsl_f0 := rfl
  have h2 : C.lrgb_to_hsl_f0 = 0x40000000 := rfl
  rw [hz, h2]
  have hsum : |toReal xmax + toReal xmin| ≤ 2 := by rw [vM, vm, abs_le]; constructor <;> linarith
  obtain ⟨fs, es⟩ := add_val xmax xmin fM fm (fit1 _ (by linarith))
  have hs_ge : 0 ≤ toReal (add xmax xmin) := by
    have := add_ge xmax xmin 0 fM fm c_zero.1 (fit1 _ (by linarith)) (by rw [c_zero.2]; simp) (by rw [c_zero.2, vM, vm]; linarith)
    rw [c_zero.2] at this; exact this
  have hs_le : toReal (add xmax xmin) ≤ 2 := by
    have := add_le xmax xmin 0x40000000 fM fm c_two.1 (fit1 _ (by linarith)) (by rw [c_two.2]; exact fit1 _ (by norm_num)) (by rw [c_two.2, vM, vm]; linarith)
    rw [c_two.2] at this; exact this
  set S := toReal (add xmax xmin)
  obtain ⟨n, m, e, hv, hf⟩ := div_two_form (add xmax xmin) fs
  rw [hf]
  have hmag : (m:ℝ) * (2:ℝ) ^ e < (2:ℝ) ^ (127:ℤ) := by
    rw [← abs_valR n m e, hv]; exact fit1 _ (by rw [abs_le]; constructor <;> linarith)
  obtain ⟨fl, el⟩ := round_val n m e hmag
  obtain ⟨_, hle⟩ := round_le n m e 0x3f800000 c_one.1 hmag (by rw [c_one.2]; exact fit1 _ (by norm_num)) (by rw [hv, c_one.2]; linarith)
  obtain ⟨_, hge⟩ := round_ge n m e 0 c_zero.1 hmag (by rw [c_zero.2]; simp) (by rw [hv, c_zero.2]; linarith)
  rw [c_one.2] at hle; rw [c_zero.2] at hge
  refine ⟨fl, hge, hle, ?_⟩
  rw [hv] at el
  unfold specL
  have hu := u_val
  have he := eta_le
  rw [vM, vm] at es
  have h1 : u * |Mx + Mn| ≤ u * 2 := mul_le_mul_of_nonneg_left (by rw [abs_le]; constructor <;> linarith) u_pos.le
  have h2' : u * |S / 2| ≤ u * 1 := mul_le_mul_of_nonneg_left (by rw [abs_le]; constructor <;> linarith) u_pos.le
  rw [hu] at h1 h2' es el
  obtain ⟨e1, e2⟩ := abs_le.mp es
  obtain ⟨l1, l2⟩ := abs_le.mp el
  rw [abs_le]; constructor <;> linarith

/-- exact zero: finite with real value 0 (either sign of zero) -/
def Z (a : Nat) : Prop := Finite a ∧ toReal a = 0

theorem neg_one : Finite (F32.neg 0x3f800000) ∧ toReal (F32.neg 0x3f800000) = -1 := by
  obtain ⟨f, t⟩ := toReal_neg 0x3f800000 (by norm_num) c_one.1
  exact ⟨f, by rw [t, c_one.2]⟩

/-- **L = 0 is black and L = 1 is white**, for every finite hue in [0,360) and saturation in [0,1] (exact: each output
component has exactly the real value of L) -/
theorem black_white (p : Mat32.V3) (wh : WF p.x) (ws : WF p.y) (wl : WF p.z) (fh : Finite p.x) (fs : Finite p.y) (fl : Finite p.z)
    (hh : 0 ≤ toReal p.x ∧ toReal p.x < 360) (hs : 0 ≤ toReal p.y ∧ toReal p.y ≤ 1) (hl : toReal p.z = 0 ∨ toReal p.z = 1) :
    toReal (hslToLrgb p).x = toReal p.z ∧ toReal (hslToLrgb p).y = toReal p.z ∧ toReal (hslToLrgb p).z = toReal p.z := by
  have f1 := c_one; have f2 := c_two; have f0 := c_zero; have fn1 := neg_one
  have fitc : ∀ x : ℝ, |x| ≤ 1000 → |x| < (2:ℝ) ^ (127:ℤ) := fun x h => fit1 x h
  have hL1 : |toReal p.z| ≤ 1 := by rcases hl with h | h <;> rw [h] <;> norm_num
  -- t1 = fma 2 l (-1) is exactly ±1
  have ht1 : Finite (F32.fma 0x40000000 p.z (F32.neg 0x3f800000)) ∧ |toReal (F32.fma 0x40000000 p.z (F32.neg 0x3f800000))| = 1 := by
    have hfin : Finite (F32.fma 0x40000000 p.z (F32.neg 0x3f800000)) :=
      (fma_val _ _ _ f2.1 fl fn1.1 (fitc _ (by rw [f2.2, fn1.2]; rcases hl with h | h <;> rw [h] <;> norm_num))).1
    refine ⟨hfin, ?_⟩
    rcases hl with h | h
    · have := fma_exact 0x40000000 p.z (F32.neg 0x3f800000) (F32.neg 0x3f800000) f2.1 fl fn1.1 fn1.1 (fitc _ (by rw [fn1.2]; norm_num)) (by rw [f2.2, h, fn1.2]; norm_num)
      rw [this, fn1.2]; norm_num
    · have := fma_exact 0x40000000 p.z (F32.neg 0x3f800000) 0x3f800000 f2.1 fl fn1.1 f1.1 (fitc _ (by rw [f1.2]; norm_num)) (by rw [f2.2, h, fn1.2, f1.2]; norm_num)
      rw [this, f1.2]; norm_num
  obtain ⟨ft2, vt2⟩ := toReal_abs _ (fma_wf _ _ _) ht1.1
  rw [ht1.2] at vt2
  -- t3 = 1 - |t1| = 0
  have wt2 : WF (F32.abs (F32.fma 0x40000000 p.z (F32.neg 0x3f800000))) := abs_wf _ (fma_wf _ _ _)
  have ft3 : Finite (F32.sub 0x3f800000 (F32.abs (F32.fma 0x40000000 p.z (F32.neg 0x3f800000)))) :=
    (sub_val _ _ wt2 f1.1 ft2 (fitc _ (by rw [f1.2, vt2]; norm_num))).1
  have vt3 : toReal (F32.sub 0x3f800000 (F32.abs (F32.fma 0x40000000 p.z (F32.neg 0x3f800000)))) = 0 := by
    have := sub_exact 0x3f800000 _ 0 wt2 f1.1 ft2 f0.1 (fitc _ (by rw [f0.2]; norm_num)) (by rw [f1.2, vt2, f0.2]; norm_num)
    rw [this, f0.2]
  -- c = t3 * s = 0
  set t3 := F32.sub 0x3f800000 (F32.abs (F32.fma 0x40000000 p.z (F32.neg 0x3f800000)))
  have zc : Z (F32.mul t3 p.y) := by
    refine ⟨(mul_bnd t3 p.y 0 1 ⟨ft3, by rw [vt3]; simp⟩ ⟨fs, by rw [abs_le]; constructor <;> linarith [hs.1, hs.2]⟩ (fit_small _ (by norm_num))).1.1, ?_⟩
    have := mul_exact t3 p.y 0 ft3 fs f0.1 (fitc _ (by rw [f0.2]; norm_num)) (by rw [vt3, f0.2]; ring)
    rw [this, f0.2]
  set c := F32.mul t3 p.y
  -- hp = h / 60, finite
  have h60 : toReal (0x42700000 : Nat) ≠ 0 := by rw [c_sixty.2]; norm_num
  have fhp : Finite (F32.div p.x 0x42700000) := (div_val p.x 0x42700000 fh c_sixty.1 h60 (by
    rw [c_sixty.2, abs_div, abs_of_nonneg hh.1]
    have : toReal p.x / |(60:ℝ)| ≤ 6 := by rw [abs_of_pos (by norm_num : (0:ℝ) < 60), div_le_iff₀ (by norm_num)]; linarith [hh.2]
    refine le_trans this ?_
    have : (2:ℝ) ^ (3:ℤ) ≤ (2:ℝ) ^ (126:ℤ) := zpow_le_zpow_right₀ (by norm_num) (by norm_num)
    refine le_trans ?_ this; norm_num)).1
  -- fmod hp 2, finite and at most 2
  obtain ⟨ffm, bfm⟩ := fmod_fin (F32.div p.x 0x42700000) 0x40000000 fhp f2.1 (by rw [f2.2]; norm_num) (fitc _ (by rw [f2.2]; norm_num))
  rw [f2.2] at bfm
  have wfm1 : WF (0x3f800000 : Nat) := by unfold WF; norm_num
  obtain ⟨ft4, et4⟩ := sub_val (fmod (F32.div p.x 0x42700000) 0x40000000) 0x3f800000 wfm1 ffm f1.1 (fitc _ (by
    rw [f1.2]; have := abs_sub (toReal (fmod (F32.div p.x 0x42700000) 0x40000000)) 1; simp at this bfm; linarith))
  have bt4 : |toReal (F32.sub (fmod (F32.div p.x 0x42700000) 0x40000000) 0x3f800000)| ≤ 4 := by
    have h1 := abs_sub_abs_le_abs_sub (toReal (F32.sub (fmod (F32.div p.x 0x42700000) 0x40000000) 0x3f800000)) (toReal (fmod (F32.div p.x 0x42700000) 0x40000000) - toReal (0x3f800000 : Nat))
    have h2 : |toReal (fmod (F32.div p.x 0x42700000) 0x40000000) - toReal (0x3f800000 : Nat)| ≤ 3 := by
      rw [f1.2]; have := abs_sub (toReal (fmod (F32.div p.x 0x42700000) 0x40000000)) 1; simp at this bfm; linarith
    have hu := u_val; have he := eta_le
    have : u * |toReal (fmod (F32.div p.x 0x42700000) 0x40000000) - toReal (0x3f800000 : Nat)| ≤ u * 3 := mul_le_mul_of_nonneg_left h2 u_pos.le
    rw [hu] at this et4; linarith
  have wsub : ∀ a b, WF (F32.sub a b) := fun a b => add_wf _ _
  obtain ⟨ft5, vt5⟩ := toReal_abs _ (wsub _ _) ft4
  have ft6 : Finite (F32.sub 0x3f800000 (F32.abs (F32.sub (fmod (F32.div p.x 0x42700000) 0x40000000) 0x3f800000))) :=
    (sub_val _ _ (abs_wf _ (wsub _ _)) f1.1 ft5 (fitc _ (by
      rw [f1.2, vt5]; have := abs_sub (1:ℝ) |toReal (F32.sub (fmod (F32.div p.x 0x42700000) 0x40000000) 0x3f800000)|; simp at this; linarith))).1
  set t6 := F32.sub 0x3f800000 (F32.abs (F32.sub (fmod (F32.div p.x 0x42700000) 0x40000000) 0x3f800000))
  -- x = c * t6 = 0
  have zx : Z (F32.mul c t6) := by
    have hb6 : |toReal t6| < (2:ℝ) ^ (127:ℤ) := by
      obtain ⟨n, m, e, hd⟩ := ft6
      exact (fitc _ (by
        have hsv := sub_val 0x3f800000 (F32.abs (F32.sub (fmod (F32.div p.x 0x42700000) 0x40000000) 0x3f800000)) (abs_wf _ (wsub _ _)) f1.1 ft5 (fitc _ (by
          rw [f1.2, vt5]; have := abs_sub (1:ℝ) |toReal (F32.sub (fmod (F32.div p.x 0x42700000) 0x40000000) 0x3f800000)|; simp at this; linarith))
        have h1 := abs_sub_abs_le_abs_sub (toReal t6) (toReal (0x3f800000:Nat) - toReal (F32.abs (F32.sub (fmod (F32.div p.x 0x42700000) 0x40000000) 0x3f800000)))
        have h2 : |toReal (0x3f800000:Nat) - toReal (F32.abs (F32.sub (fmod (F32.div p.x 0x42700000) 0x40000000) 0x3f800000))| ≤ 5 := by
          rw [f1.2, vt5]; have := abs_sub (1:ℝ) |toReal (F32.sub (fmod (F32.div p.x 0x42700000) 0x40000000) 0x3f800000)|; simp at this; linarith
        have hu := u_val; have he := eta_le
        have : u * |toReal (0x3f800000:Nat) - toReal (F32.abs (F32.sub (fmod (F32.div p.x 0x42700000) 0x40000000) 0x3f800000))| ≤ u * 5 := mul_le_mul_of_nonneg_left h2 u_pos.le
        have e6 := hsv.2
        rw [hu] at this e6; linarith))
    have hfm : Finite (F32.mul c t6) := by
      obtain ⟨n1, m1, e1, h1⟩ := zc.1
      obtain ⟨n2, m2, e2, h2⟩ := ft6
      have hm1 : m1 = 0 := by
        have := zc.2; rw [toReal_of_decode _ _ _ _ h1] at this
        unfold valR at this
        have h2e : (2:ℝ) ^ e1 ≠ 0 := by positivity
        have : (m1:ℝ) = 0 := by
          rcases mul_eq_zero.mp this with h | h
          · split at h <;> norm_num at h
          · rcases mul_eq_zero.mp h with h' | h'
            · exact h'
            · exact absurd h' h2e
        exact_mod_cast this
      exact (mul_val c t6 n1 n2 m1 m2 e1 e2 h1 h2 (by intro hne; rw [hm1] at hne; simp at hne)).1
    refine ⟨hfm, ?_⟩
    have := mul_exact c t6 0 zc.1 ft6 f0.1 (fitc _ (by rw [f0.2]; norm_num)) (by rw [zc.2, f0.2]; ring)
    rw [this, f0.2]
  set x := F32.mul c t6
  -- m = l - c/2 = l
  obtain ⟨n, mm, e, hv, hf⟩ := div_two_form c zc.1
  have zdc : Z (F32.div c 0x40000000) := by
    rw [hf]
    rw [zc.2] at hv
    have hmag : (mm:ℝ) * (2:ℝ) ^ e < (2:ℝ) ^ (127:ℤ) := by rw [← abs_valR n mm e, hv]; simp
    obtain ⟨ff, hle⟩ := round_le n mm e 0 f0.1 hmag (by rw [f0.2]; simp) (by rw [hv, f0.2]; norm_num)
    obtain ⟨_, hge⟩ := round_ge n mm e 0 f0.1 hmag (by rw [f0.2]; simp) (by rw [hv, f0.2]; norm_num)
    rw [f0.2] at hle hge
    exact ⟨ff, le_antisymm hle hge⟩
  have hm : Finite (F32.sub p.z (F32.div c 0x40000000)) ∧ toReal (F32.sub p.z (F32.div c 0x40000000)) = toReal p.z := by
    have hfit : |toReal p.z - toReal (F32.div c 0x40000000)| < (2:ℝ) ^ (127:ℤ) := fitc _ (by rw [zdc.2, sub_zero]; linarith)
    refine ⟨(sub_val _ _ (div_wf _ _) fl zdc.1 hfit).1, ?_⟩
    exact sub_exact p.z _ p.z (div_wf _ _) fl zdc.1 fl (fitc _ (by linarith)) (by rw [zdc.2, sub_zero])
  set m := F32.sub p.z (F32.div c 0x40000000)
  -- every component of rgb1 is an exact zero, so every output is exactly L
  have key : ∀ a : Nat, Z a → toReal (F32.add a m) = toReal p.z := by
    intro a za
    exact add_exact a m p.z za.1 hm.1 fl (fitc _ (by linarith)) (by rw [za.2, hm.2, zero_add])
  have zz : Z (0 : Nat) := ⟨f0.1, f0.2⟩
  have hout : ∃ r g b : Nat, Z r ∧ Z g ∧ Z b ∧ hslToLrgb p = ⟨F32.add r m, F32.add g m, F32.add b m⟩ := by
    unfold hslToLrgb
    simp only []
    split_ifs
    all_goals first
      | exact ⟨c, x, _, zc, zx, zz, rfl⟩
      | exact ⟨x, c, _, zx, zc, zz, rfl⟩
      | exact ⟨_, c, x, zz, zc, zx, rfl⟩
      | exact ⟨_, x, c, zz, zx, zc, rfl⟩
      | exact ⟨x, _, c, zx, zz, zc, rfl⟩
      | exact ⟨c, _, x, zc, zz, zx, rfl⟩
  obtain ⟨r, g, b, zr, zg, zb, ho⟩ := hout
  rw [ho]
  exact ⟨key r zr, key g zg, key b zb⟩

end C17
