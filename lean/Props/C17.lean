import Proofs.HslBasics
import Proofs.F32Sign
import Model.Types
/-! C17 — HSL conversion (hexcone model). Proved here over the reals for every finite linear-RGB pixel of [0,1]^3:
`lightness`: L lies in [0,1] EXACTLY (monotonicity of rounding) and is within 1.3e-7 of (max+min)/2.
Further clauses are added below as they are proved; the remaining ones rest on the correspondence and the oracle. -/
namespace C17
open F32 Real PixelM

/-- finite pixels of the unit cube -/
structure Unit3 (p : Mat32.V3) : Prop where
  fx : Finite p.x
  fy : Finite p.y
  fz : Finite p.z
  bx : 0 ≤ toReal p.x ∧ toReal p.x ≤ 1
  bY : 0 ≤ toReal p.y ∧ toReal p.y ≤ 1
  bz : 0 ≤ toReal p.z ∧ toReal p.z ≤ 1

/-- hexcone quantities of a real pixel -/
noncomputable def mx (x y z : ℝ) : ℝ := Max.max (Max.max x y) z
noncomputable def mn (x y z : ℝ) : ℝ := Min.min (Min.min x y) z
noncomputable def specL (x y z : ℝ) : ℝ := (mx x y z + mn x y z) / 2

theorem mx_mn_bounds (x y z : ℝ) (hx : 0 ≤ x ∧ x ≤ 1) (hy : 0 ≤ y ∧ y ≤ 1) (hz : 0 ≤ z ∧ z ≤ 1) :
    0 ≤ mn x y z ∧ mn x y z ≤ mx x y z ∧ mx x y z ≤ 1 := by
  unfold mx mn
  refine ⟨le_min (le_min hx.1 hy.1) hz.1, ?_, max_le (max_le hx.2 hy.2) hz.2⟩
  exact le_trans (min_le_left _ _) (le_trans (min_le_left _ _) (le_trans (le_max_left _ _) (le_max_left _ _)))

/-- the model's `xmax`, `xmin` are finite and are the real maximum / minimum -/
theorem maxmin (p : Mat32.V3) (hp : Unit3 p) :
    Finite (F32.max (F32.max p.x p.y) p.z) ∧ Finite (F32.min (F32.min p.x p.y) p.z) ∧
    toReal (F32.max (F32.max p.x p.y) p.z) = mx (toReal p.x) (toReal p.y) (toReal p.z) ∧
    toReal (F32.min (F32.min p.x p.y) p.z) = mn (toReal p.x) (toReal p.y) (toReal p.z) := by
  obtain ⟨o1, v1⟩ := max_val p.x p.y hp.fx hp.fy
  have f1 : Finite (F32.max p.x p.y) := by rcases o1 with h | h <;> rw [h] <;> [exact hp.fx; exact hp.fy]
  obtain ⟨o2, v2⟩ := max_val _ p.z f1 hp.fz
  have f2 : Finite (F32.max (F32.max p.x p.y) p.z) := by rcases o2 with h | h <;> rw [h] <;> [exact f1; exact hp.fz]
  obtain ⟨o3, v3⟩ := min_val p.x p.y hp.fx hp.fy
  have f3 : Finite (F32.min p.x p.y) := by rcases o3 with h | h <;> rw [h] <;> [exact hp.fx; exact hp.fy]
  obtain ⟨o4, v4⟩ := min_val _ p.z f3 hp.fz
  have f4 : Finite (F32.min (F32.min p.x p.y) p.z) := by rcases o4 with h | h <;> rw [h] <;> [exact f3; exact hp.fz]
  exact ⟨f2, f4, by rw [v2, v1]; rfl, by rw [v4, v3]; rfl⟩

theorem fit1 (x : ℝ) (h : |x| ≤ 1000) : |x| < (2:ℝ) ^ (127:ℤ) := fit_small _ (by linarith)

/-- **lightness**: L is in [0,1] exactly and within 1.3e-7 of (max+min)/2 -/
theorem lightness (p : Mat32.V3) (hp : Unit3 p) :
    Finite (lrgbToHsl p).z ∧ 0 ≤ toReal (lrgbToHsl p).z ∧ toReal (lrgbToHsl p).z ≤ 1 ∧
    |toReal (lrgbToHsl p).z - specL (toReal p.x) (toReal p.y) (toReal p.z)| ≤ 13 / 100000000 := by
  obtain ⟨fM, fm, vM, vm⟩ := maxmin p hp
  obtain ⟨b0, b1, b2⟩ := mx_mn_bounds _ _ _ hp.bx hp.bY hp.bz
  set xmax := F32.max (F32.max p.x p.y) p.z
  set xmin := F32.min (F32.min p.x p.y) p.z
  set Mx := mx (toReal p.x) (toReal p.y) (toReal p.z)
  set Mn := mn (toReal p.x) (toReal p.y) (toReal p.z)
  have hz : (lrgbToHsl p).z = div (add xmax xmin) C.lrgb_to_hsl_f0 := rfl
  have h2 : C.lrgb_to_hsl_f0 = 0x40000000 := rfl
  rw [hz, h2]
  have hsum : |toReal xmax + toReal xmin| ≤ 2 := by rw [vM, vm, abs_le]; constructor <;> linarith
  obtain ⟨fs, es⟩ := add_val xmax xmin fM fm (fit1 _ (by linarith))
  have hs_ge : 0 ≤ toReal (add xmax xmin) := by
    have := add_ge xmax xmin 0 fM fm c_zero.1 (fit1 _ (by linarith)) (by rw [c_zero.2]; simp) (by rw [c_zero.2, vM, vm]; linarith)
    rw [c_zero.2] at this; exact this
  have hs_le : toReal (add xmax xmin) ≤ 2 := by
    have := add_le xmax xmin 0x40000000 fM fm c_two.1 (fit1 _ (by linarith)) (by rw [c_two.2]; exact fit1 _ (by norm_num)) (by rw [c_two.2, vM, vm]; linarith)
    rw [c_two.2] at this; exact this
  set S := toReal (add xmax xmin)
  obtain ⟨n, m, e, hv, hf⟩ := div_two_form (add xmax xmin) fs
  rw [hf]
  have hmag : (m:ℝ) * (2:ℝ) ^ e < (2:ℝ) ^ (127:ℤ) := by
    rw [← abs_valR n m e, hv]; exact fit1 _ (by rw [abs_le]; constructor <;> linarith)
  obtain ⟨fl, el⟩ := round_val n m e hmag
  obtain ⟨_, hle⟩ := round_le n m e 0x3f800000 c_one.1 hmag (by rw [c_one.2]; exact fit1 _ (by norm_num)) (by rw [hv, c_one.2]; linarith)
  obtain ⟨_, hge⟩ := round_ge n m e 0 c_zero.1 hmag (by rw [c_zero.2]; simp) (by rw [hv, c_zero.2]; linarith)
  rw [c_one.2] at hle; rw [c_zero.2] at hge
  refine ⟨fl, hge, hle, ?_⟩
  rw [hv] at el
  unfold specL
  have hu := u_val
  have he := eta_le
  rw [vM, vm] at es
  have h1 : u * |Mx + Mn| ≤ u * 2 := mul_le_mul_of_nonneg_left (by rw [abs_le]; constructor <;> linarith) u_pos.le
  have h2' : u * |S / 2| ≤ u * 1 := mul_le_mul_of_nonneg_left (by rw [abs_le]; constructor <;> linarith) u_pos.le
  rw [hu] at h1 h2' es el
  obtain ⟨e1, e2⟩ := abs_le.mp es
  obtain ⟨l1, l2⟩ := abs_le.mp el
  rw [abs_le]; constructor <;> linarith

/-- exact zero: finite with real value 0 (either sign of zero) -/
def Z (a : Nat) : Prop := Finite a ∧ toReal a = 0

theorem neg_one : Finite (F32.neg 0x3f800000) ∧ toReal (F32.neg 0x3f800000) = -1 := by
  obtain ⟨f, t⟩ := toReal_neg 0x3f800000 (by norm_num) c_one.1
  exact ⟨f, by rw [t, c_one.2]⟩

/-- **L = 0 is black and L = 1 is white**, for every finite hue in [0,360) and saturation in [0,1] (exact: each output
component has exactly the real value of L) -/
theorem black_white (p : Mat32.V3) (wh : WF p.x) (ws : WF p.y) (wl : WF p.z) (fh : Finite p.x) (fs : Finite p.y) (fl : Finite p.z)
    (hh : 0 ≤ toReal p.x ∧ toReal p.x < 360) (hs : 0 ≤ toReal p.y ∧ toReal p.y ≤ 1) (hl : toReal p.z = 0 ∨ toReal p.z = 1) :
    toReal (hslToLrgb p).x = toReal p.z ∧ toReal (hslToLrgb p).y = toReal p.z ∧ toReal (hslToLrgb p).z = toReal p.z := by
  have f1 := c_one; have f2 := c_two; have f0 := c_zero; have fn1 := neg_one
  have fitc : ∀ x : ℝ, |x| ≤ 1000 → |x| < (2:ℝ) ^ (127:ℤ) := fun x h => fit1 x h
  have hL1 : |toReal p.z| ≤ 1 := by rcases hl with h | h <;> rw [h] <;> norm_num
  -- t1 = fma 2 l (-1) is exactly ±1
  have ht1 : Finite (F32.fma 0x40000000 p.z (F32.neg 0x3f800000)) ∧ |toReal (F32.fma 0x40000000 p.z (F32.neg 0x3f800000))| = 1 := by
    have hfin : Finite (F32.fma 0x40000000 p.z (F32.neg 0x3f800000)) :=
      (fma_val _ _ _ f2.1 fl fn1.1 (fitc _ (by rw [f2.2, fn1.2]; rcases hl with h | h <;> rw [h] <;> norm_num))).1
    refine ⟨hfin, ?_⟩
    rcases hl with h | h
    · have := fma_exact 0x40000000 p.z (F32.neg 0x3f800000) (F32.neg 0x3f800000) f2.1 fl fn1.1 fn1.1 (fitc _ (by rw [fn1.2]; norm_num)) (by rw [f2.2, h, fn1.2]; norm_num)
      rw [this, fn1.2]; norm_num
    · have := fma_exact 0x40000000 p.z (F32.neg 0x3f800000) 0x3f800000 f2.1 fl fn1.1 f1.1 (fitc _ (by rw [f1.2]; norm_num)) (by rw [f2.2, h, fn1.2, f1.2]; norm_num)
      rw [this, f1.2]; norm_num
  obtain ⟨ft2, vt2⟩ := toReal_abs _ (fma_wf _ _ _) ht1.1
  rw [ht1.2] at vt2
  -- t3 = 1 - |t1| = 0
  have wt2 : WF (F32.abs (F32.fma 0x40000000 p.z (F32.neg 0x3f800000))) := abs_wf _ (fma_wf _ _ _)
  have ft3 : Finite (F32.sub 0x3f800000 (F32.abs (F32.fma 0x40000000 p.z (F32.neg 0x3f800000)))) :=
    (sub_val _ _ wt2 f1.1 ft2 (fitc _ (by rw [f1.2, vt2]; norm_num))).1
  have vt3 : toReal (F32.sub 0x3f800000 (F32.abs (F32.fma 0x40000000 p.z (F32.neg 0x3f800000)))) = 0 := by
    have := sub_exact 0x3f800000 _ 0 wt2 f1.1 ft2 f0.1 (fitc _ (by rw [f0.2]; norm_num)) (by rw [f1.2, vt2, f0.2]; norm_num)
    rw [this, f0.2]
  -- c = t3 * s = 0
  set t3 := F32.sub 0x3f800000 (F32.abs (F32.fma 0x40000000 p.z (F32.neg 0x3f800000)))
  have zc : Z (F32.mul t3 p.y) := by
    refine ⟨(mul_bnd t3 p.y 0 1 ⟨ft3, by rw [vt3]; simp⟩ ⟨fs, by rw [abs_le]; constructor <;> linarith [hs.1, hs.2]⟩ (fit_small _ (by norm_num))).1.1, ?_⟩
    have := mul_exact t3 p.y 0 ft3 fs f0.1 (fitc _ (by rw [f0.2]; norm_num)) (by rw [vt3, f0.2]; ring)
    rw [this, f0.2]
  set c := F32.mul t3 p.y
  -- hp = h / 60, finite
  have h60 : toReal (0x42700000 : Nat) ≠ 0 := by rw [c_sixty.2]; norm_num
  have fhp : Finite (F32.div p.x 0x42700000) := (div_val p.x 0x42700000 fh c_sixty.1 h60 (by
    rw [c_sixty.2, abs_div, abs_of_nonneg hh.1]
    have : toReal p.x / |(60:ℝ)| ≤ 6 := by rw [abs_of_pos (by norm_num : (0:ℝ) < 60), div_le_iff₀ (by norm_num)]; linarith [hh.2]
    refine le_trans this ?_
    have : (2:ℝ) ^ (3:ℤ) ≤ (2:ℝ) ^ (126:ℤ) := zpow_le_zpow_right₀ (by norm_num) (by norm_num)
    refine le_trans ?_ this; norm_num)).1
  -- fmod hp 2, finite and at most 2
  obtain ⟨ffm, bfm⟩ := fmod_fin (F32.div p.x 0x42700000) 0x40000000 fhp f2.1 (by rw [f2.2]; norm_num) (fitc _ (by rw [f2.2]; norm_num))
  rw [f2.2] at bfm
  have wfm1 : WF (0x3f800000 : Nat) := by unfold WF; norm_num
  obtain ⟨ft4, et4⟩ := sub_val (fmod (F32.div p.x 0x42700000) 0x40000000) 0x3f800000 wfm1 ffm f1.1 (fitc _ (by
    rw [f1.2]; have := abs_sub (toReal (fmod (F32.div p.x 0x42700000) 0x40000000)) 1; simp at this bfm; linarith))
  have bt4 : |toReal (F32.sub (fmod (F32.div p.x 0x42700000) 0x40000000) 0x3f800000)| ≤ 4 := by
    have h1 := abs_sub_abs_le_abs_sub (toReal (F32.sub (fmod (F32.div p.x 0x42700000) 0x40000000) 0x3f800000)) (toReal (fmod (F32.div p.x 0x42700000) 0x40000000) - toReal (0x3f800000 : Nat))
    have h2 : |toReal (fmod (F32.div p.x 0x42700000) 0x40000000) - toReal (0x3f800000 : Nat)| ≤ 3 := by
      rw [f1.2]; have := abs_sub (toReal (fmod (F32.div p.x 0x42700000) 0x40000000)) 1; simp at this bfm; linarith
    have hu := u_val; have he := eta_le
    have : u * |toReal (fmod (F32.div p.x 0x42700000) 0x40000000) - toReal (0x3f800000 : Nat)| ≤ u * 3 := mul_le_mul_of_nonneg_left h2 u_pos.le
    rw [hu] at this et4; linarith
  have wsub : ∀ a b, WF (F32.sub a b) := fun a b => add_wf _ _
  obtain ⟨ft5, vt5⟩ := toReal_abs _ (wsub _ _) ft4
  have ft6 : Finite (F32.sub 0x3f800000 (F32.abs (F32.sub (fmod (F32.div p.x 0x42700000) 0x40000000) 0x3f800000))) :=
    (sub_val _ _ (abs_wf _ (wsub _ _)) f1.1 ft5 (fitc _ (by
      rw [f1.2, vt5]; have := abs_sub (1:ℝ) |toReal (F32.sub (fmod (F32.div p.x 0x42700000) 0x40000000) 0x3f800000)|; simp at this; linarith))).1
  set t6 := F32.sub 0x3f800000 (F32.abs (F32.sub (fmod (F32.div p.x 0x42700000) 0x40000000) 0x3f800000))
  -- x = c * t6 = 0
  have zx : Z (F32.mul c t6) := by
    have hb6 : |toReal t6| < (2:ℝ) ^ (127:ℤ) := by
      obtain ⟨n, m, e, hd⟩ := ft6
      exact (fitc _ (by
        have hsv := sub_val 0x3f800000 (F32.abs (F32.sub (fmod (F32.div p.x 0x42700000) 0x40000000) 0x3f800000)) (abs_wf _ (wsub _ _)) f1.1 ft5 (fitc _ (by
          rw [f1.2, vt5]; have := abs_sub (1:ℝ) |toReal (F32.sub (fmod (F32.div p.x 0x42700000) 0x40000000) 0x3f800000)|; simp at this; linarith))
        have h1 := abs_sub_abs_le_abs_sub (toReal t6) (toReal (0x3f800000:Nat) - toReal (F32.abs (F32.sub (fmod (F32.div p.x 0x42700000) 0x40000000) 0x3f800000)))
        have h2 : |toReal (0x3f800000:Nat) - toReal (F32.abs (F32.sub (fmod (F32.div p.x 0x42700000) 0x40000000) 0x3f800000))| ≤ 5 := by
          rw [f1.2, vt5]; have := abs_sub (1:ℝ) |toReal (F32.sub (fmod (F32.div p.x 0x42700000) 0x40000000) 0x3f800000)|; simp at this; linarith
        have hu := u_val; have he := eta_le
        have : u * |toReal (0x3f800000:Nat) - toReal (F32.abs (F32.sub (fmod (F32.div p.x 0x42700000) 0x40000000) 0x3f800000))| ≤ u * 5 := mul_le_mul_of_nonneg_left h2 u_pos.le
        have e6 := hsv.2
        rw [hu] at this e6; linarith))
    have hfm : Finite (F32.mul c t6) := by
      obtain ⟨n1, m1, e1, h1⟩ := zc.1
      obtain ⟨n2, m2, e2, h2⟩ := ft6
      have hm1 : m1 = 0 := by
        have := zc.2; rw [toReal_of_decode _ _ _ _ h1] at this
        unfold valR at this
        have h2e : (2:ℝ) ^ e1 ≠ 0 := by positivity
        have : (m1:ℝ) = 0 := by
          rcases mul_eq_zero.mp this with h | h
          · split at h <;> norm_num at h
          · rcases mul_eq_zero.mp h with h' | h'
            · exact h'
            · exact absurd h' h2e
        exact_mod_cast this
      exact (mul_val c t6 n1 n2 m1 m2 e1 e2 h1 h2 (by intro hne; rw [hm1] at hne; simp at hne)).1
    refine ⟨hfm, ?_⟩
    have := mul_exact c t6 0 zc.1 ft6 f0.1 (fitc _ (by rw [f0.2]; norm_num)) (by rw [zc.2, f0.2]; ring)
    rw [this, f0.2]
  set x := F32.mul c t6
  -- m = l - c/2 = l
  obtain ⟨n, mm, e, hv, hf⟩ := div_two_form c zc.1
  have zdc : Z (F32.div c 0x40000000) := by
    rw [hf]
    rw [zc.2] at hv
    have hmag : (mm:ℝ) * (2:ℝ) ^ e < (2:ℝ) ^ (127:ℤ) := by rw [← abs_valR n mm e, hv]; simp
    obtain ⟨ff, hle⟩ := round_le n mm e 0 f0.1 hmag (by rw [f0.2]; simp) (by rw [hv, f0.2]; norm_num)
    obtain ⟨_, hge⟩ := round_ge n mm e 0 f0.1 hmag (by rw [f0.2]; simp) (by rw [hv, f0.2]; norm_num)
    rw [f0.2] at hle hge
    exact ⟨ff, le_antisymm hle hge⟩
  have hm : Finite (F32.sub p.z (F32.div c 0x40000000)) ∧ toReal (F32.sub p.z (F32.div c 0x40000000)) = toReal p.z := by
    have hfit : |toReal p.z - toReal (F32.div c 0x40000000)| < (2:ℝ) ^ (127:ℤ) := fitc _ (by rw [zdc.2, sub_zero]; linarith)
    refine ⟨(sub_val _ _ (div_wf _ _) fl zdc.1 hfit).1, ?_⟩
    exact sub_exact p.z _ p.z (div_wf _ _) fl zdc.1 fl (fitc _ (by linarith)) (by rw [zdc.2, sub_zero])
  set m := F32.sub p.z (F32.div c 0x40000000)
  -- every component of rgb1 is an exact zero, so every output is exactly L
  have key : ∀ a : Nat, Z a → toReal (F32.add a m) = toReal p.z := by
    intro a za
    exact add_exact a m p.z za.1 hm.1 fl (fitc _ (by linarith)) (by rw [za.2, hm.2, zero_add])
  have zz : Z (0 : Nat) := ⟨f0.1, f0.2⟩
  have hout : ∃ r g b : Nat, Z r ∧ Z g ∧ Z b ∧ hslToLrgb p = ⟨F32.add r m, F32.add g m, F32.add b m⟩ := by
    unfold hslToLrgb
    simp only []
    split_ifs
    all_goals first
      | exact ⟨c, x, _, zc, zx, zz, rfl⟩
      | exact ⟨x, c, _, zx, zc, zz, rfl⟩
      | exact ⟨_, c, x, zz, zc, zx, rfl⟩
      | exact ⟨_, x, c, zz, zx, zc, rfl⟩
      | exact ⟨x, _, c, zx, zz, zc, rfl⟩
      | exact ⟨c, _, x, zc, zz, zx, rfl⟩
  obtain ⟨r, g, b, zr, zg, zb, ho⟩ := hout
  rw [ho]
  exact ⟨key r zr, key g zg, key b zb⟩

/-- well-formed bit patterns (below 2^32), as every `f32` is -/
structure Wf3 (p : Mat32.V3) : Prop where
  wx : WF p.x
  wy : WF p.y
  wz : WF p.z

theorem max_wf (a b : Nat) (ha : WF a) (hb : WF b) : WF (F32.max a b) := by unfold F32.max; split_ifs <;> assumption
theorem min_wf (a b : Nat) (ha : WF a) (hb : WF b) : WF (F32.min a b) := by unfold F32.min; split_ifs <;> assumption

/-- twice a finite value of magnitude at most 1 is representable -/
theorem double_rep (a : Nat) (ha : Finite a) (hb : |toReal a| ≤ 1) : ∃ r, F32.Finite r ∧ toReal r = 2 * toReal a := by
  obtain ⟨n, m, e, h⟩ := ha
  have hm := decode_mant_lt a n m e h
  have he : -149 ≤ e := by
    unfold decode at h
    simp only [consts.2.2.1, consts.2.2.2.2.2.1, consts.2.2.2.1] at h
    split at h
    · split at h <;> cases h
    · split at h
      · injection h with _ _ he; omega
      · injection h with _ _ he; omega
  rw [toReal_of_decode _ _ _ _ h, abs_valR] at hb
  have hfit : (m:ℝ) * (2:ℝ) ^ (e + 1) < (2:ℝ) ^ (127:ℤ) := by
    rw [zpow_add_one₀ (by norm_num : (2:ℝ) ≠ 0), ← mul_assoc]
    exact fit_small _ (by linarith)
  obtain ⟨m', e', hd, hv⟩ := roundPack_exact n m (e + 1) hm (by omega) hfit
  refine ⟨roundPack n m (e + 1), ⟨_, _, _, hd⟩, ?_⟩
  rw [toReal_of_decode _ _ _ _ hd, toReal_of_decode _ _ _ _ h]
  unfold valR; rw [hv, zpow_add_one₀ (by norm_num : (2:ℝ) ≠ 0)]; ring

/-- L never exceeds the maximum component (monotonicity of the two roundings) -/
theorem l_le_max (p : Mat32.V3) (hp : Unit3 p) :
    toReal (lrgbToHsl p).z ≤ toReal (F32.max (F32.max p.x p.y) p.z) := by
  obtain ⟨fM, fm, vM, vm⟩ := maxmin p hp
  obtain ⟨b0, b1, b2⟩ := mx_mn_bounds _ _ _ hp.bx hp.bY hp.bz
  set xmax := F32.max (F32.max p.x p.y) p.z
  set xmin := F32.min (F32.min p.x p.y) p.z
  have hz : (lrgbToHsl p).z = div (add xmax xmin) 0x40000000 := rfl
  rw [hz]
  have hMx1 : |toReal xmax| ≤ 1 := by rw [vM, abs_le]; constructor <;> linarith
  obtain ⟨r, fr, vr⟩ := double_rep xmax fM hMx1
  have hsum : |toReal xmax + toReal xmin| ≤ 2 := by rw [vM, vm, abs_le]; constructor <;> linarith
  have hS : toReal (add xmax xmin) ≤ 2 * toReal xmax :=
    by have := add_le xmax xmin r fM fm fr (fit1 _ (by linarith)) (by rw [vr]; exact fit1 _ (by rw [abs_mul]; norm_num; linarith)) (by rw [vr, vM, vm]; linarith)
       rw [vr] at this; exact this
  obtain ⟨fs, _⟩ := add_val xmax xmin fM fm (fit1 _ (by linarith))
  have hS0 : 0 ≤ toReal (add xmax xmin) := by
    have := add_ge xmax xmin 0 fM fm c_zero.1 (fit1 _ (by linarith)) (by rw [c_zero.2]; simp) (by rw [c_zero.2, vM, vm]; linarith)
    rw [c_zero.2] at this; exact this
  obtain ⟨n, m, e, hv, hf⟩ := div_two_form (add xmax xmin) fs
  rw [hf]
  have hmag : (m:ℝ) * (2:ℝ) ^ e < (2:ℝ) ^ (127:ℤ) := by
    rw [← abs_valR n m e, hv]; exact fit1 _ (by rw [abs_le]; constructor <;> linarith [abs_le.mp hMx1])
  exact (round_le n m e xmax fM hmag (fit1 _ (by linarith)) (by rw [hv]; linarith)).2

theorem rep_lo : Finite 0xbf7ffffc ∧ toReal 0xbf7ffffc = -(1 - 1 / 4194304) := by
  have h : decode 0xbf7ffffc = .fin true 16777212 (-24) := by decide +kernel
  refine ⟨⟨_, _, _, h⟩, ?_⟩
  rw [toReal_of_decode _ _ _ _ h]; unfold valR
  have : (2:ℝ) ^ (-24:ℤ) = 1 / 16777216 := by rw [zpow_neg, one_div]; norm_num
  rw [this]; norm_num
theorem rep_hi : Finite 0x3f7ffffe ∧ toReal 0x3f7ffffe = 1 - 1 / 8388608 := by
  have h : decode 0x3f7ffffe = .fin false 16777214 (-24) := by decide +kernel
  refine ⟨⟨_, _, _, h⟩, ?_⟩
  rw [toReal_of_decode _ _ _ _ h]; unfold valR
  have : (2:ℝ) ^ (-24:ℤ) = 1 / 16777216 := by rw [zpow_neg, one_div]; norm_num
  rw [this]; norm_num

set_option maxHeartbeats 2000000 in
/-- **saturation range**: S is finite and lies in [0,1] exactly -/
theorem saturation_range (p : Mat32.V3) (hp : Unit3 p) (hw : Wf3 p) :
    Finite (lrgbToHsl p).y ∧ 0 ≤ toReal (lrgbToHsl p).y ∧ toReal (lrgbToHsl p).y ≤ 1 := by
  obtain ⟨fL, L0, L1, _⟩ := lightness p hp
  have hLM := l_le_max p hp
  obtain ⟨fM, fm, vM, vm⟩ := maxmin p hp
  obtain ⟨b0, b1, b2⟩ := mx_mn_bounds _ _ _ hp.bx hp.bY hp.bz
  set xmax := F32.max (F32.max p.x p.y) p.z
  set xmin := F32.min (F32.min p.x p.y) p.z
  have hlz : (lrgbToHsl p).z = div (add xmax xmin) 0x40000000 := rfl
  rw [hlz] at fL L0 L1 hLM
  set l := div (add xmax xmin) 0x40000000 with hl
  have wl : WF l := div_wf _ _
  have hs : (lrgbToHsl p).y = (if (F32.lt (F32.abs l) EPSILON || F32.lt (F32.abs (F32.sub l 0x3f800000)) EPSILON) then 0
      else F32.min (F32.div (F32.mul 0x40000000 (F32.sub xmax l)) (F32.sub 0x3f800000 (F32.abs (F32.fma 0x40000000 l (F32.neg 0x3f800000))))) 0x3f800000) := rfl
  rw [hs]
  have f0 := c_zero; have f1 := c_one; have f2 := c_two; have fe := c_eps; have fn1 := neg_one
  have hE : EPSILON = 0x34000000 := rfl
  split
  · exact ⟨f0.1, by rw [f0.2], by rw [f0.2]; norm_num⟩
  · rename_i hg
    simp only [Bool.or_eq_true, not_or, Bool.not_eq_true] at hg
    obtain ⟨g1, g2⟩ := hg
    rw [hE] at g1 g2
    -- L ≥ EPS
    obtain ⟨fal, val⟩ := toReal_abs l wl fL
    have hLlo : 1 / 8388608 ≤ toReal l := by
      have : ¬ (toReal (F32.abs l) < toReal (0x34000000 : Nat)) := fun h => by
        have h2 := (lt_iff _ _ fal fe.1).mpr h; rw [g1] at h2; exact Bool.false_ne_true h2
      rw [val, fe.2, abs_of_nonneg L0] at this; linarith
    -- 1 - L ≥ 2^-24
    have w1 : WF (0x3f800000 : Nat) := by unfold WF; norm_num
    obtain ⟨fs1, es1⟩ := sub_val l 0x3f800000 w1 fL f1.1 (fit1 _ (by rw [f1.2, abs_le]; constructor <;> linarith))
    obtain ⟨fas1, vas1⟩ := toReal_abs (F32.sub l 0x3f800000) (add_wf _ _) fs1
    have hLhi : toReal l ≤ 1 - 1 / 16777216 := by
      have hge : ¬ (toReal (F32.abs (F32.sub l 0x3f800000)) < toReal (0x34000000 : Nat)) := fun h => by
        have h2 := (lt_iff _ _ fas1 fe.1).mpr h; rw [g2] at h2; exact Bool.false_ne_true h2
      rw [vas1, fe.2] at hge
      push Not at hge
      rw [f1.2] at es1
      have hu := u_val; have he := eta_le
      have h1 : |toReal l - 1| ≤ 1 := by rw [abs_le]; constructor <;> linarith
      have h2 : u * |toReal l - 1| ≤ u * 1 := mul_le_mul_of_nonneg_left h1 u_pos.le
      rw [hu] at h2 es1
      have h3 := abs_sub_abs_le_abs_sub (toReal (F32.sub l 0x3f800000)) (toReal l - 1)
      have h4 : |toReal l - 1| = 1 - toReal l := by rw [abs_of_nonpos (by linarith)]; ring
      rw [h4] at h3 h2 es1
      by_contra hc; push Not at hc
      -- then 1 - L < 2^-24 and |fl| ≤ (1-L)(1+u) + eta < 2^-23
      nlinarith
    -- t = fma 2 l (-1) in [-(1-2^-22), 1-2^-23]
    have hfitt : |toReal (0x40000000 : Nat) * toReal l + toReal (F32.neg 0x3f800000)| < (2:ℝ) ^ (127:ℤ) :=
      fit1 _ (by rw [f2.2, fn1.2, abs_le]; constructor <;> linarith)
    obtain ⟨ft, _⟩ := fma_val 0x40000000 l (F32.neg 0x3f800000) f2.1 fL fn1.1 hfitt
    have tlo := fma_ge 0x40000000 l (F32.neg 0x3f800000) 0xbf7ffffc f2.1 fL fn1.1 rep_lo.1 hfitt (fit1 _ (by rw [rep_lo.2]; norm_num))
      (by rw [rep_lo.2, f2.2, fn1.2]; linarith)
    have thi := fma_le 0x40000000 l (F32.neg 0x3f800000) 0x3f7ffffe f2.1 fL fn1.1 rep_hi.1 hfitt (fit1 _ (by rw [rep_hi.2]; norm_num))
      (by rw [rep_hi.2, f2.2, fn1.2]; linarith)
    rw [rep_lo.2] at tlo; rw [rep_hi.2] at thi
    set t := F32.fma 0x40000000 l (F32.neg 0x3f800000)
    obtain ⟨fat, vat⟩ := toReal_abs t (fma_wf _ _ _) ft
    have hat : |toReal t| ≤ 1 - 1 / 8388608 := by rw [abs_le]; constructor <;> linarith
    -- den = 1 - |t| ≥ 2^-23
    have wat : WF (F32.abs t) := abs_wf _ (fma_wf _ _ _)
    have hfitd : |toReal (0x3f800000 : Nat) - toReal (F32.abs t)| < (2:ℝ) ^ (127:ℤ) :=
      fit1 _ (by rw [f1.2, vat, abs_le]; constructor <;> linarith [abs_nonneg (toReal t)])
    obtain ⟨fden, eden⟩ := sub_val 0x3f800000 (F32.abs t) wat f1.1 fat hfitd
    have dlo := sub_ge 0x3f800000 (F32.abs t) 0x34000000 wat f1.1 fat fe.1 hfitd (fit1 _ (by rw [fe.2]; norm_num)) (by rw [fe.2, f1.2, vat]; linarith)
    rw [fe.2] at dlo
    set den := F32.sub 0x3f800000 (F32.abs t)
    have dhi : toReal den ≤ 2 := by
      rw [f1.2, vat] at eden
      have hu := u_val; have he := eta_le
      have h1 : abs (1 - |toReal t|) ≤ 1 := by rw [abs_le]; constructor <;> linarith [abs_nonneg (toReal t)]
      have h2 : u * abs (1 - |toReal t|) ≤ u * 1 := mul_le_mul_of_nonneg_left h1 u_pos.le
      rw [hu] at h2 eden
      have := abs_sub_abs_le_abs_sub (toReal den) (1 - |toReal t|)
      have := le_abs_self (toReal den)
      linarith
    -- num = 2 (v - l) ≥ 0
    have hMx1 : toReal xmax ≤ 1 := by rw [vM]; exact b2
    have hMx0 : 0 ≤ toReal xmax := by rw [vM]; linarith
    have hfitn : |toReal xmax - toReal l| < (2:ℝ) ^ (127:ℤ) := fit1 _ (by rw [abs_le]; constructor <;> linarith)
    obtain ⟨fvl, evl⟩ := sub_val xmax l wl fM fL hfitn
    have vl0 := sub_ge xmax l 0 wl fM fL f0.1 hfitn (by rw [f0.2]; simp) (by rw [f0.2]; linarith)
    rw [f0.2] at vl0
    have vl1 := sub_le xmax l 0x3f800000 wl fM fL f1.1 hfitn (fit1 _ (by rw [f1.2]; norm_num)) (by rw [f1.2]; linarith)
    rw [f1.2] at vl1
    set vl := F32.sub xmax l
    have hfitm : |toReal (0x40000000 : Nat) * toReal vl| < (2:ℝ) ^ (127:ℤ) := fit1 _ (by rw [f2.2, abs_le]; constructor <;> linarith)
    have fnum : Finite (F32.mul 0x40000000 vl) := (mul_bnd 0x40000000 vl 2 1 ⟨f2.1, by rw [f2.2]; norm_num⟩ ⟨fvl, by rw [abs_le]; constructor <;> linarith⟩ (fit_small _ (by norm_num))).1.1
    have n0 := mul_ge 0x40000000 vl 0 f2.1 fvl f0.1 hfitm (by rw [f0.2]; simp) (by rw [f0.2, f2.2]; linarith)
    rw [f0.2] at n0
    have n1 := mul_le 0x40000000 vl 0x40000000 f2.1 fvl f2.1 hfitm (fit1 _ (by rw [f2.2]; norm_num)) (by rw [f2.2]; linarith)
    rw [f2.2] at n1
    set num := F32.mul 0x40000000 vl
    -- quotient
    have hdpos : 0 < toReal den := by linarith
    have hq : |toReal num / toReal den| ≤ (2:ℝ) ^ (126:ℤ) := by
      rw [abs_div, abs_of_nonneg n0, abs_of_pos hdpos, div_le_iff₀ hdpos]
      have h1 : (2:ℝ) ^ (25:ℤ) ≤ (2:ℝ) ^ (126:ℤ) := zpow_le_zpow_right₀ (by norm_num) (by norm_num)
      have h2 : (2:ℝ) ^ (25:ℤ) = 33554432 := by norm_num
      have hp : (0:ℝ) < (2:ℝ) ^ (126:ℤ) := by positivity
      nlinarith
    obtain ⟨fq, _⟩ := div_val num den fnum fden hdpos.ne' hq
    have q0 := div_nonneg_val num den fnum fden n0 hdpos hq
    -- min with 1
    obtain ⟨om, vmn⟩ := min_val (F32.div num den) 0x3f800000 fq f1.1
    refine ⟨by rcases om with h | h <;> rw [h] <;> [exact fq; exact f1.1], ?_, ?_⟩
    · rw [vmn, f1.2]; exact le_min q0 (by norm_num)
    · rw [vmn, f1.2]; exact min_le_right _ _

theorem comp_bounds (x y z : ℝ) : (mn x y z ≤ x ∧ x ≤ mx x y z) ∧ (mn x y z ≤ y ∧ y ≤ mx x y z) ∧ (mn x y z ≤ z ∧ z ≤ mx x y z) := by
  unfold mx mn
  refine ⟨⟨le_trans (min_le_left _ _) (min_le_left _ _), le_trans (le_max_left _ _) (le_max_left _ _)⟩,
    ⟨le_trans (min_le_left _ _) (min_le_right _ _), le_trans (le_max_right _ _) (le_max_left _ _)⟩, ⟨min_le_right _ _, le_max_right _ _⟩⟩

/-- the chroma `c = max - min` as computed, when it passes the `|c| ≥ EPSILON` guard -/
theorem chroma_pos (cM cm : Nat) (wm : WF cm) (fM : Finite cM) (fm : Finite cm) (Mx Mn : ℝ) (vM : toReal cM = Mx) (vm : toReal cm = Mn)
    (h01 : 0 ≤ Mn ∧ Mn ≤ Mx ∧ Mx ≤ 1) (hg : F32.lt (F32.abs (F32.sub cM cm)) EPSILON = false) :
    Finite (F32.sub cM cm) ∧ 1 / 16777216 ≤ Mx - Mn ∧ |toReal (F32.sub cM cm) - (Mx - Mn)| ≤ 6 / 100000000 * (Mx - Mn) + 1 / 10 ^ 40 ∧ 0 < toReal (F32.sub cM cm) := by
  have hfit : |toReal cM - toReal cm| < (2:ℝ) ^ (127:ℤ) := fit1 _ (by rw [vM, vm, abs_le]; constructor <;> linarith [h01.1, h01.2.1, h01.2.2])
  obtain ⟨fc, ec⟩ := sub_val cM cm wm fM fm hfit
  rw [vM, vm] at ec
  obtain ⟨fac, vac⟩ := toReal_abs (F32.sub cM cm) (add_wf _ _) fc
  have hE : EPSILON = 0x34000000 := rfl
  rw [hE] at hg
  have hge : ¬ (toReal (F32.abs (F32.sub cM cm)) < toReal (0x34000000 : Nat)) := fun h => by
    have h2 := (lt_iff _ _ fac c_eps.1).mpr h; rw [hg] at h2; exact Bool.false_ne_true h2
  rw [vac, c_eps.2] at hge
  push Not at hge
  have hC0 : 0 ≤ Mx - Mn := by linarith [h01.2.1]
  rw [abs_of_nonneg hC0] at ec
  have hu := u_val; have he := eta_le; have he0 := eta_pos
  rw [hu] at ec
  have h3 := abs_sub_abs_le_abs_sub (toReal (F32.sub cM cm)) (Mx - Mn)
  rw [abs_of_nonneg hC0] at h3
  have hClo : 1 / 16777216 ≤ Mx - Mn := by
    by_contra hc; push Not at hc
    nlinarith
  obtain ⟨e1, e2⟩ := abs_le.mp ec
  refine ⟨fc, hClo, ?_, by nlinarith⟩
  rw [abs_le]; constructor <;> nlinarith

/-- one hue quotient `(a - b) / c` with `a, b` between min and max: finite and of magnitude at most 1.000001 -/
theorem hue_term (a b c : Nat) (wb : WF b) (fa : Finite a) (fb : Finite b) (fc : Finite c) (Mx Mn : ℝ)
    (ha : Mn ≤ toReal a ∧ toReal a ≤ Mx) (hb : Mn ≤ toReal b ∧ toReal b ≤ Mx) (hC : 1 / 16777216 ≤ Mx - Mn) (hMx : Mx - Mn ≤ 1)
    (hc : |toReal c - (Mx - Mn)| ≤ 6 / 100000000 * (Mx - Mn) + 1 / 10 ^ 40) :
    Finite (F32.div (F32.sub a b) c) ∧ |toReal (F32.div (F32.sub a b) c)| ≤ 1000001 / 1000000 := by
  have hab : |toReal a - toReal b| ≤ Mx - Mn := by rw [abs_le]; constructor <;> linarith [ha.1, ha.2, hb.1, hb.2]
  obtain ⟨fn, en⟩ := sub_val a b wb fa fb (fit1 _ (by linarith))
  have hu := u_val; have he := eta_le; have he0 := eta_pos
  have h1 : u * |toReal a - toReal b| ≤ u * (Mx - Mn) := mul_le_mul_of_nonneg_left hab u_pos.le
  rw [hu] at h1 en
  set N := toReal (F32.sub a b)
  set cc := toReal c
  set Cr := Mx - Mn
  have hN : |N| ≤ Cr * (1 + 6 / 100000000) + 1 / 10 ^ 40 := by
    have := abs_sub_abs_le_abs_sub N (toReal a - toReal b); linarith
  obtain ⟨c1, c2⟩ := abs_le.mp hc
  have hcpos : 0 < cc := by nlinarith
  have hcc : Cr * (1 - 7 / 100000000) ≤ cc := by nlinarith
  have hq : |N / cc| ≤ 1 + 2 / 10000000 := by
    rw [abs_div, abs_of_pos hcpos, div_le_iff₀ hcpos]
    nlinarith
  have hqfit : |N / cc| ≤ (2:ℝ) ^ (126:ℤ) := by
    have : (2:ℝ) ^ (1:ℤ) ≤ (2:ℝ) ^ (126:ℤ) := zpow_le_zpow_right₀ (by norm_num) (by norm_num)
    refine le_trans hq (le_trans (by norm_num) this)
  obtain ⟨fd, ed⟩ := div_val (F32.sub a b) c fn fc hcpos.ne' hqfit
  refine ⟨fd, ?_⟩
  have hud : ud ≤ 61 / 1000000000 := by unfold ud; rw [hu]; norm_num
  have hud0 := ud_pos
  have := abs_sub_abs_le_abs_sub (toReal (F32.div (F32.sub a b) c)) (N / cc)
  have h2 : ud * |N / cc| ≤ 61 / 1000000000 * (1 + 2 / 10000000) := mul_le_mul hud hq (abs_nonneg _) (by norm_num)
  linarith

/-- `60 * (k + d)` for `k` in {0, 2, 4} (as a finite float of magnitude at most 4) and `|d| ≤ 1.000001`: finite, magnitude at most 301 -/
theorem hue_scale (k d : Nat) (fk : Finite k) (hk : |toReal k| ≤ 4) (fd : Finite d) (hd : |toReal d| ≤ 1000001 / 1000000) :
    Finite (F32.mul 0x42700000 (F32.add k d)) ∧ |toReal (F32.mul 0x42700000 (F32.add k d))| ≤ 301 := by
  have hu := u_val; have he := eta_le; have he0 := eta_pos
  obtain ⟨b1, _⟩ := add_bnd k d 4 (1000001 / 1000000) ⟨fk, hk⟩ ⟨fd, hd⟩ (fit_small _ (by norm_num))
  have hb1 : (4 + 1000001 / 1000000) * (1 + u) + eta ≤ 50001 / 10000 := by rw [hu]; nlinarith
  obtain ⟨b2, _⟩ := mul_bnd 0x42700000 (F32.add k d) 60 (50001 / 10000) ⟨c_sixty.1, by rw [c_sixty.2]; norm_num⟩ ⟨b1.1, le_trans b1.2 hb1⟩ (fit_small _ (by norm_num))
  refine ⟨b2.1, le_trans b2.2 ?_⟩
  rw [hu]; nlinarith

theorem hue_scale0 (d : Nat) (fd : Finite d) (hd : |toReal d| ≤ 1000001 / 1000000) :
    Finite (F32.mul 0x42700000 d) ∧ |toReal (F32.mul 0x42700000 d)| ≤ 301 := by
  have hu := u_val; have he := eta_le; have he0 := eta_pos
  obtain ⟨b2, _⟩ := mul_bnd 0x42700000 d 60 (1000001 / 1000000) ⟨c_sixty.1, by rw [c_sixty.2]; norm_num⟩ ⟨fd, hd⟩ (fit_small _ (by norm_num))
  refine ⟨b2.1, le_trans b2.2 ?_⟩
  rw [hu]; nlinarith

/-- the two wrap-around steps: a finite raw hue of magnitude at most 301 ends in [0, 360) -/
theorem hue_wrap (h0 : Nat) (f0 : Finite h0) (b0 : |toReal h0| ≤ 301) :
    let h1 := if F32.lt h0 0 then F32.add h0 0x43b40000 else h0
    let h2 := if F32.ge h1 0x43b40000 then 0 else h1
    Finite h2 ∧ 0 ≤ toReal h2 ∧ toReal h2 < 360 := by
  intro h1 h2
  obtain ⟨p0, q0⟩ := abs_le.mp b0
  have f360 := c_360; have fz := c_zero
  have hh1 : Finite h1 ∧ 0 ≤ toReal h1 := by
    show Finite (if F32.lt h0 0 then F32.add h0 0x43b40000 else h0) ∧ 0 ≤ toReal (if F32.lt h0 0 then F32.add h0 0x43b40000 else h0)
    split
    · have hfit : |toReal h0 + toReal (0x43b40000 : Nat)| < (2:ℝ) ^ (127:ℤ) := fit1 _ (by rw [f360.2, abs_le]; constructor <;> linarith)
      refine ⟨(add_val h0 0x43b40000 f0 f360.1 hfit).1, ?_⟩
      have := add_ge h0 0x43b40000 0 f0 f360.1 fz.1 hfit (by rw [fz.2]; simp) (by rw [fz.2, f360.2]; linarith)
      rw [fz.2] at this; exact this
    · rename_i hn
      refine ⟨f0, ?_⟩
      by_contra hc; push Not at hc
      exact hn ((lt_iff h0 0 f0 fz.1).mpr (by rw [fz.2]; exact hc))
  show Finite (if F32.ge h1 0x43b40000 then 0 else h1) ∧ 0 ≤ toReal (if F32.ge h1 0x43b40000 then 0 else h1) ∧ toReal (if F32.ge h1 0x43b40000 then 0 else h1) < 360
  split
  · exact ⟨fz.1, by rw [fz.2], by rw [fz.2]; norm_num⟩
  · rename_i hn
    refine ⟨hh1.1, hh1.2, ?_⟩
    by_contra hc; push Not at hc
    exact hn ((ge_iff h1 0x43b40000 hh1.1 f360.1).mpr (by rw [f360.2]; exact hc))

set_option maxHeartbeats 2000000 in
/-- **hue range**: H is finite and lies in [0, 360) -/
theorem hue_range (p : Mat32.V3) (hp : Unit3 p) (hw : Wf3 p) :
    Finite (lrgbToHsl p).x ∧ 0 ≤ toReal (lrgbToHsl p).x ∧ toReal (lrgbToHsl p).x < 360 := by
  obtain ⟨fM, fm, vM, vm⟩ := maxmin p hp
  obtain ⟨b0, b1, b2⟩ := mx_mn_bounds _ _ _ hp.bx hp.bY hp.bz
  obtain ⟨cx, cy, cz⟩ := comp_bounds (toReal p.x) (toReal p.y) (toReal p.z)
  set xmax := F32.max (F32.max p.x p.y) p.z
  set xmin := F32.min (F32.min p.x p.y) p.z
  have wmin : WF xmin := min_wf _ _ (min_wf _ _ hw.wx hw.wy) hw.wz
  set Mx := mx (toReal p.x) (toReal p.y) (toReal p.z)
  set Mn := mn (toReal p.x) (toReal p.y) (toReal p.z)
  set c := F32.sub xmax xmin with hc
  -- the raw hue
  have hraw : ∃ h0, F32.Finite h0 ∧ |toReal h0| ≤ 301 ∧ (lrgbToHsl p).x =
      (let h1 := if F32.lt h0 0 then F32.add h0 0x43b40000 else h0; if F32.ge h1 0x43b40000 then 0 else h1) := by
    have hx : (lrgbToHsl p).x =
      (let h0 := if F32.lt (F32.abs c) EPSILON then 0
        else if F32.lt (F32.abs (F32.sub xmax p.x)) EPSILON then F32.mul 0x42700000 (F32.div (F32.sub p.y p.z) c)
        else if F32.lt (F32.abs (F32.sub xmax p.y)) EPSILON then F32.mul 0x42700000 (F32.add 0x40000000 (F32.div (F32.sub p.z p.x) c))
        else F32.mul 0x42700000 (F32.add 0x40800000 (F32.div (F32.sub p.x p.y) c));
       let h1 := if F32.lt h0 0 then F32.add h0 0x43b40000 else h0; if F32.ge h1 0x43b40000 then 0 else h1) := rfl
    rw [hx]
    by_cases hg : F32.lt (F32.abs c) EPSILON = true
    · refine ⟨0, c_zero.1, by rw [c_zero.2]; norm_num, ?_⟩
      simp only [hg, if_true]
    · have hg' : F32.lt (F32.abs c) EPSILON = false := by simpa using hg
      obtain ⟨fc, hClo, hce, _⟩ := chroma_pos xmax xmin wmin fM fm Mx Mn vM vm ⟨b0, b1, b2⟩ hg'
      have hC1 : Mx - Mn ≤ 1 := by linarith
      obtain ⟨f1, d1⟩ := hue_term p.y p.z c hw.wz hp.fy hp.fz fc Mx Mn cy cz hClo hC1 hce
      obtain ⟨f2, d2⟩ := hue_term p.z p.x c hw.wx hp.fz hp.fx fc Mx Mn cz cx hClo hC1 hce
      obtain ⟨f3, d3⟩ := hue_term p.x p.y c hw.wy hp.fx hp.fy fc Mx Mn cx cy hClo hC1 hce
      simp only [hg', Bool.false_eq_true, if_false]
      by_cases g2 : F32.lt (F32.abs (F32.sub xmax p.x)) EPSILON = true
      · obtain ⟨fh, bh⟩ := hue_scale0 _ f1 d1
        exact ⟨_, fh, bh, by simp only [g2, if_true]⟩
      · have g2' : F32.lt (F32.abs (F32.sub xmax p.x)) EPSILON = false := by simpa using g2
        simp only [g2', Bool.false_eq_true, if_false]
        by_cases g3 : F32.lt (F32.abs (F32.sub xmax p.y)) EPSILON = true
        · obtain ⟨fh, bh⟩ := hue_scale 0x40000000 _ c_two.1 (by rw [c_two.2]; norm_num) f2 d2
          exact ⟨_, fh, bh, by simp only [g3, if_true]⟩
        · have g3' : F32.lt (F32.abs (F32.sub xmax p.y)) EPSILON = false := by simpa using g3
          obtain ⟨fh, bh⟩ := hue_scale 0x40800000 _ c_four.1 (by rw [c_four.2]; norm_num) f3 d3
          exact ⟨_, fh, bh, by simp only [g3', Bool.false_eq_true, if_false]⟩
  obtain ⟨h0, f0, bh0, hx⟩ := hraw
  rw [hx]
  exact hue_wrap h0 f0 bh0

/-- hexcone saturation of a real pixel -/
noncomputable def specS (x y z : ℝ) : ℝ := (mx x y z - mn x y z) / (1 - |2 * specL x y z - 1|)

set_option maxHeartbeats 4000000 in
/-- **saturation accuracy**: for 0.01 ≤ L ≤ 0.99 (exact lightness) S is within 1e-4 of (max-min)/(1-|2L-1|) -/
theorem saturation_accurate (p : Mat32.V3) (hp : Unit3 p) (hL : 1 / 100 ≤ specL (toReal p.x) (toReal p.y) (toReal p.z) ∧ specL (toReal p.x) (toReal p.y) (toReal p.z) ≤ 99 / 100) :
    |toReal (lrgbToHsl p).y - specS (toReal p.x) (toReal p.y) (toReal p.z)| ≤ 1 / 10000 := by
  obtain ⟨fL, L0, L1, eL⟩ := lightness p hp
  obtain ⟨fM, fm, vM, vm⟩ := maxmin p hp
  obtain ⟨b0, b1, b2⟩ := mx_mn_bounds _ _ _ hp.bx hp.bY hp.bz
  set xmax := F32.max (F32.max p.x p.y) p.z
  set xmin := F32.min (F32.min p.x p.y) p.z
  have hlz : (lrgbToHsl p).z = div (add xmax xmin) 0x40000000 := rfl
  rw [hlz] at fL L0 L1 eL
  set l := div (add xmax xmin) 0x40000000 with hl
  have wl : WF l := div_wf _ _
  have hs : (lrgbToHsl p).y = (if (F32.lt (F32.abs l) EPSILON || F32.lt (F32.abs (F32.sub l 0x3f800000)) EPSILON) then 0
      else F32.min (F32.div (F32.mul 0x40000000 (F32.sub xmax l)) (F32.sub 0x3f800000 (F32.abs (F32.fma 0x40000000 l (F32.neg 0x3f800000))))) 0x3f800000) := rfl
  rw [hs]
  have f0 := c_zero; have f1 := c_one; have f2 := c_two; have fe := c_eps; have fn1 := neg_one
  have hE : EPSILON = 0x34000000 := rfl
  have hu := u_val; have he := eta_le; have he0 := eta_pos
  set Mx := mx (toReal p.x) (toReal p.y) (toReal p.z)
  set Mn := mn (toReal p.x) (toReal p.y) (toReal p.z)
  set Ls := specL (toReal p.x) (toReal p.y) (toReal p.z) with hLs
  have hLsd : Ls = (Mx + Mn) / 2 := rfl
  set L := toReal l
  obtain ⟨el1, el2⟩ := abs_le.mp eL
  -- guards are false
  obtain ⟨fal, val⟩ := toReal_abs l wl fL
  have g1 : F32.lt (F32.abs l) EPSILON = false := by
    rw [hE]; by_contra hc
    have hc' : F32.lt (F32.abs l) 0x34000000 = true := by simpa using hc
    have := (lt_iff _ _ fal fe.1).mp hc'
    rw [val, fe.2, abs_of_nonneg L0] at this; linarith [hL.1]
  have w1 : WF (0x3f800000 : Nat) := by unfold WF; norm_num
  obtain ⟨fs1, es1⟩ := sub_val l 0x3f800000 w1 fL f1.1 (fit1 _ (by rw [f1.2, abs_le]; constructor <;> linarith))
  obtain ⟨fas1, vas1⟩ := toReal_abs (F32.sub l 0x3f800000) (add_wf _ _) fs1
  have g2 : F32.lt (F32.abs (F32.sub l 0x3f800000)) EPSILON = false := by
    rw [hE]; by_contra hc
    have hc' : F32.lt (F32.abs (F32.sub l 0x3f800000)) 0x34000000 = true := by simpa using hc
    have := (lt_iff _ _ fas1 fe.1).mp hc'
    rw [vas1, fe.2] at this
    rw [f1.2] at es1
    have h1 : |L - 1| ≤ 1 := by rw [abs_le]; constructor <;> linarith
    have h2 : u * |L - 1| ≤ u * 1 := mul_le_mul_of_nonneg_left h1 u_pos.le
    rw [hu] at h2 es1
    have h3 := abs_sub_abs_le_abs_sub (L - 1) (toReal (F32.sub l 0x3f800000))
    rw [abs_sub_comm (L - 1) _] at h3
    have h4 : |L - 1| = 1 - L := by rw [abs_of_nonpos (by linarith)]; ring
    rw [h4] at h3
    linarith [hL.2]
  simp only [g1, g2, Bool.or_self, Bool.false_eq_true, if_false]
  -- t = fma 2 l (-1)
  have hfitt : |toReal (0x40000000 : Nat) * L + toReal (F32.neg 0x3f800000)| < (2:ℝ) ^ (127:ℤ) :=
    fit1 _ (by rw [f2.2, fn1.2, abs_le]; constructor <;> linarith)
  obtain ⟨ft, et⟩ := fma_val 0x40000000 l (F32.neg 0x3f800000) f2.1 fL fn1.1 hfitt
  rw [f2.2, fn1.2] at et
  set t := F32.fma 0x40000000 l (F32.neg 0x3f800000)
  have ht1 : |2 * L + -1| ≤ 1 := by rw [abs_le]; constructor <;> linarith
  have ht2 : u * |2 * L + -1| ≤ u * 1 := mul_le_mul_of_nonneg_left ht1 u_pos.le
  rw [hu] at ht2 et
  obtain ⟨fat, vat⟩ := toReal_abs t (fma_wf _ _ _) ft
  -- |t| vs |2 Ls - 1|
  have hTt : |toReal t - (2 * Ls - 1)| ≤ 33 / 100000000 := by
    have e : toReal t - (2 * Ls - 1) = (toReal t - (2 * L + -1)) + 2 * (L - Ls) := by ring
    rw [e]
    have t1 := abs_add_le (toReal t - (2 * L + -1)) (2 * (L - Ls))
    have t2 : |2 * (L - Ls)| = 2 * |L - Ls| := by rw [abs_mul]; norm_num
    linarith
  have habs : abs (|toReal t| - |2 * Ls - 1|) ≤ 33 / 100000000 := le_trans (abs_abs_sub_abs_le_abs_sub _ _) hTt
  -- den
  have wat : WF (F32.abs t) := abs_wf _ (fma_wf _ _ _)
  set Ds := 1 - |2 * Ls - 1| with hDs
  have hDs2 : 2 / 100 ≤ Ds := by
    rw [hDs]; have : |2 * Ls - 1| ≤ 98 / 100 := by rw [abs_le]; constructor <;> linarith [hL.1, hL.2]
    linarith
  have hDs1 : Ds ≤ 1 := by rw [hDs]; linarith [abs_nonneg (2 * Ls - 1)]
  obtain ⟨a1, a2⟩ := abs_le.mp habs
  have hfitd : |toReal (0x3f800000 : Nat) - toReal (F32.abs t)| < (2:ℝ) ^ (127:ℤ) :=
    fit1 _ (by rw [f1.2, vat, abs_le]; constructor <;> linarith [abs_nonneg (toReal t), abs_nonneg (2 * Ls - 1)])
  obtain ⟨fden, eden⟩ := sub_val 0x3f800000 (F32.abs t) wat f1.1 fat hfitd
  rw [f1.2, vat] at eden
  set den := F32.sub 0x3f800000 (F32.abs t)
  have hd1 : abs (1 - |toReal t|) ≤ 1 := by rw [abs_le]; constructor <;> linarith [abs_nonneg (toReal t), abs_nonneg (2 * Ls - 1)]
  have hd2 : u * abs (1 - |toReal t|) ≤ u * 1 := mul_le_mul_of_nonneg_left hd1 u_pos.le
  rw [hu] at hd2 eden
  have hden : |toReal den - Ds| ≤ 4 / 10000000 := by
    have e : toReal den - Ds = (toReal den - (1 - |toReal t|)) - (|toReal t| - |2 * Ls - 1|) := by rw [hDs]; ring
    rw [e]
    have := abs_sub (toReal den - (1 - |toReal t|)) (|toReal t| - |2 * Ls - 1|)
    linarith
  obtain ⟨dd1, dd2⟩ := abs_le.mp hden
  have hdpos : 0 < toReal den := by linarith
  -- num
  have hMx1 : toReal xmax ≤ 1 := by rw [vM]; exact b2
  have hMx0 : 0 ≤ toReal xmax := by rw [vM]; linarith
  have hfitn : |toReal xmax - L| < (2:ℝ) ^ (127:ℤ) := fit1 _ (by rw [abs_le]; constructor <;> linarith)
  obtain ⟨fvl, evl⟩ := sub_val xmax l wl fM fL hfitn
  set vl := F32.sub xmax l
  have hv1 : |toReal xmax - L| ≤ 1 := by rw [abs_le]; constructor <;> linarith
  have hv2 : u * |toReal xmax - L| ≤ u * 1 := mul_le_mul_of_nonneg_left hv1 u_pos.le
  rw [hu] at hv2 evl
  have bvl : Bnd vl (11 / 10) := ⟨fvl, by have := abs_sub_abs_le_abs_sub (toReal vl) (toReal xmax - L); linarith⟩
  obtain ⟨bnum, enum⟩ := mul_bnd 0x40000000 vl 2 (11 / 10) ⟨f2.1, by rw [f2.2]; norm_num⟩ bvl (fit_small _ (by norm_num))
  rw [f2.2, hu] at enum
  set num := F32.mul 0x40000000 vl
  set Cs := Mx - Mn with hCs
  have hCs0 : 0 ≤ Cs := by rw [hCs]; linarith
  have hnum : |toReal num - Cs| ≤ 6 / 10000000 := by
    have e : toReal num - Cs = (toReal num - 2 * toReal vl) + 2 * (toReal vl - (toReal xmax - L)) - 2 * (L - Ls) := by rw [hCs, vM, hLsd]; ring
    rw [e]
    have t1 := abs_sub ((toReal num - 2 * toReal vl) + 2 * (toReal vl - (toReal xmax - L))) (2 * (L - Ls))
    have t2 := abs_add_le (toReal num - 2 * toReal vl) (2 * (toReal vl - (toReal xmax - L)))
    have t3 : |2 * (toReal vl - (toReal xmax - L))| = 2 * |toReal vl - (toReal xmax - L)| := by rw [abs_mul]; norm_num
    have t4 : |2 * (L - Ls)| = 2 * |L - Ls| := by rw [abs_mul]; norm_num
    linarith
  obtain ⟨n1, n2⟩ := abs_le.mp hnum
  -- C ≤ D (exact saturation at most 1)
  have hCD : Cs ≤ Ds := by
    rw [hCs, hDs, hLsd]
    rcases le_total 0 (2 * ((Mx + Mn) / 2) - 1) with h | h
    · rw [abs_of_nonneg h]; linarith
    · rw [abs_of_nonpos h]; linarith
  -- quotient
  have hq : |toReal num / toReal den - Cs / Ds| ≤ 6 / 100000 := by
    have hDpos : 0 < Ds := by linarith
    have e : toReal num / toReal den - Cs / Ds = ((toReal num - Cs) * Ds - Cs * (toReal den - Ds)) / (toReal den * Ds) := by field_simp; ring
    rw [e, abs_div, abs_of_pos (mul_pos hdpos hDpos), div_le_iff₀ (mul_pos hdpos hDpos)]
    have t1 := abs_sub ((toReal num - Cs) * Ds) (Cs * (toReal den - Ds))
    have t2 : |(toReal num - Cs) * Ds| ≤ 6 / 10000000 * Ds := by rw [abs_mul, abs_of_pos hDpos]; exact mul_le_mul_of_nonneg_right hnum hDpos.le
    have t3 : |Cs * (toReal den - Ds)| ≤ Cs * (4 / 10000000) := by rw [abs_mul, abs_of_nonneg hCs0]; exact mul_le_mul_of_nonneg_left hden hCs0
    nlinarith
  have hqabs : |toReal num / toReal den| ≤ 2 := by
    have hDpos : 0 < Ds := by linarith
    have : Cs / Ds ≤ 1 := by rw [div_le_one hDpos]; exact hCD
    have : 0 ≤ Cs / Ds := div_nonneg hCs0 hDpos.le
    obtain ⟨q1, q2⟩ := abs_le.mp hq
    rw [abs_le]; constructor <;> linarith
  have hqfit : |toReal num / toReal den| ≤ (2:ℝ) ^ (126:ℤ) := by
    have : (2:ℝ) ^ (1:ℤ) ≤ (2:ℝ) ^ (126:ℤ) := zpow_le_zpow_right₀ (by norm_num) (by norm_num)
    refine le_trans hqabs (le_trans (by norm_num) this)
  obtain ⟨fq, eq'⟩ := div_val num den bnum.1 fden hdpos.ne' hqfit
  have hud : ud ≤ 61 / 1000000000 := by unfold ud; rw [hu]; norm_num
  have hud0 := ud_pos
  have hqe : |toReal (F32.div num den) - Cs / Ds| ≤ 7 / 100000 := by
    have t := abs_sub_le (toReal (F32.div num den)) (toReal num / toReal den) (Cs / Ds)
    have : ud * |toReal num / toReal den| ≤ 61 / 1000000000 * 2 := mul_le_mul hud hqabs (abs_nonneg _) (by norm_num)
    linarith
  -- min with 1
  obtain ⟨_, vmn⟩ := min_val (F32.div num den) 0x3f800000 fq f1.1
  rw [vmn, f1.2]
  have hS1 : specS (toReal p.x) (toReal p.y) (toReal p.z) = Cs / Ds := rfl
  rw [hS1]
  have hDpos : 0 < Ds := by linarith
  have hsle : Cs / Ds ≤ 1 := by rw [div_le_one hDpos]; exact hCD
  obtain ⟨q1, q2⟩ := abs_le.mp hqe
  rw [abs_le]; constructor
  · have := min_le_left (toReal (F32.div num den)) 1
    rcases le_total (toReal (F32.div num den)) 1 with h | h
    · rw [min_eq_left h]; linarith
    · rw [min_eq_right h]; linarith
  · have := min_le_left (toReal (F32.div num den)) 1
    linarith

/-- refined hue quotient: `(a - b) / c` is within 3e-7 of the real `(A - B) / (max - min)` -/
theorem hue_term_acc (a b c : Nat) (wb : WF b) (fa : Finite a) (fb : Finite b) (fc : Finite c) (Mx Mn : ℝ)
    (ha : Mn ≤ toReal a ∧ toReal a ≤ Mx) (hb : Mn ≤ toReal b ∧ toReal b ≤ Mx) (hC : 1 / 16777216 ≤ Mx - Mn) (hMx : Mx - Mn ≤ 1)
    (hc : |toReal c - (Mx - Mn)| ≤ 6 / 100000000 * (Mx - Mn) + 1 / 10 ^ 40) :
    |toReal (F32.div (F32.sub a b) c) - (toReal a - toReal b) / (Mx - Mn)| ≤ 3 / 10000000 := by
  have hab : |toReal a - toReal b| ≤ Mx - Mn := by rw [abs_le]; constructor <;> linarith [ha.1, ha.2, hb.1, hb.2]
  obtain ⟨fn, en⟩ := sub_val a b wb fa fb (fit1 _ (by linarith))
  have hu := u_val; have he := eta_le; have he0 := eta_pos
  have h1 : u * |toReal a - toReal b| ≤ u * (Mx - Mn) := mul_le_mul_of_nonneg_left hab u_pos.le
  rw [hu] at h1 en
  set N := toReal (F32.sub a b)
  set cc := toReal c
  set Cr := Mx - Mn
  set Dab := toReal a - toReal b
  have hCpos : 0 < Cr := by linarith
  have hN : |N| ≤ Cr * (1 + 6 / 100000000) + 1 / 10 ^ 40 := by
    have := abs_sub_abs_le_abs_sub N Dab; linarith
  obtain ⟨c1, c2⟩ := abs_le.mp hc
  have hcpos : 0 < cc := by nlinarith
  have hcc : Cr * (1 - 7 / 100000000) ≤ cc := by nlinarith
  have hq : |N / cc| ≤ 1 + 2 / 10000000 := by
    rw [abs_div, abs_of_pos hcpos, div_le_iff₀ hcpos]
    nlinarith
  have hqfit : |N / cc| ≤ (2:ℝ) ^ (126:ℤ) := by
    have : (2:ℝ) ^ (1:ℤ) ≤ (2:ℝ) ^ (126:ℤ) := zpow_le_zpow_right₀ (by norm_num) (by norm_num)
    refine le_trans hq (le_trans (by norm_num) this)
  obtain ⟨fd, ed⟩ := div_val (F32.sub a b) c fn fc hcpos.ne' hqfit
  have hud : ud ≤ 61 / 1000000000 := by unfold ud; rw [hu]; norm_num
  have hud0 := ud_pos
  have h2 : ud * |N / cc| ≤ 61 / 1000000000 * (1 + 2 / 10000000) := mul_le_mul hud hq (abs_nonneg _) (by norm_num)
  -- N/cc vs Dab/Cr
  have hr : |N / cc - Dab / Cr| ≤ 2 / 10000000 := by
    have e : N / cc - Dab / Cr = ((N - Dab) * Cr - Dab * (cc - Cr)) / (cc * Cr) := by field_simp; ring
    rw [e, abs_div, abs_of_pos (mul_pos hcpos hCpos), div_le_iff₀ (mul_pos hcpos hCpos)]
    have t1 := abs_sub ((N - Dab) * Cr) (Dab * (cc - Cr))
    have t2 : |(N - Dab) * Cr| ≤ (1 / 16777216 * Cr + 1 / 10 ^ 40) * Cr := by
      rw [abs_mul, abs_of_pos hCpos]; exact mul_le_mul_of_nonneg_right (by linarith) hCpos.le
    have t3 : |Dab * (cc - Cr)| ≤ Cr * (6 / 100000000 * Cr + 1 / 10 ^ 40) := by
      rw [abs_mul]; exact mul_le_mul hab hc (abs_nonneg _) hCpos.le
    have hCC : 1 / 16777216 * Cr ≤ Cr * Cr := by nlinarith
    nlinarith
  have t := abs_sub_le (toReal (F32.div (F32.sub a b) c)) (N / cc) (Dab / Cr)
  linarith

/-- closeness on the hue circle -/
def Circ (a b ε : ℝ) : Prop := ∃ k : ℤ, |a - b - 360 * (k:ℝ)| ≤ ε

theorem circ_of_abs (a b ε : ℝ) (h : |a - b| ≤ ε) : Circ a b ε := ⟨0, by simpa using h⟩

theorem circ_trans (a b c ε1 ε2 : ℝ) (h1 : Circ a b ε1) (h2 : Circ b c ε2) : Circ a c (ε1 + ε2) := by
  obtain ⟨k1, e1⟩ := h1; obtain ⟨k2, e2⟩ := h2
  refine ⟨k1 + k2, ?_⟩
  have e : a - c - 360 * ((k1 + k2 : ℤ) : ℝ) = (a - b - 360 * (k1:ℝ)) + (b - c - 360 * (k2:ℝ)) := by push_cast; ring
  rw [e]; exact le_trans (abs_add_le _ _) (add_le_add e1 e2)

theorem circ_shift (a b ε : ℝ) (k : ℤ) (h : |a - b - 360 * (k:ℝ)| ≤ ε) : Circ a b ε := ⟨k, h⟩

end C17
