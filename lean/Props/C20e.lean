import Props.C20c
import Props.C10c
import Props.C10d
/-! C20, "all other properties still hold" for C10 without `fastmath`: the round trip for the power-law family, Log100/316, HLG
and Linear (11 of the 14 characteristics) under the libm hypotheses. The logarithmic and HLG proofs of C10 are stated for an
abstract oracle and are simply re-instantiated; the power pair uses the relative accuracy of the libm `powf` directly. -/
namespace C20
open F32 MathM TransferM Real ExpPoly Horner C03 C10

/-- the power pair with libm `powf` -/
theorem roundtrip_pow_nofast (B : Build) (hB : B.fastmath = false) (hL : LibmPowOk B.libm) (thr1 zero1 y1 thr2 zero2 y2 : Nat)
    (ht1 : Finite thr1 ∧ toReal thr1 = 0) (ht2 : Finite thr2 ∧ toReal thr2 = 0)
    (hy1 : Finite y1) (hy2 : Finite y2) (hY1a : 2 ≤ toReal y1) (hY1b : toReal y1 ≤ 3)
    (hY2a : 35 / 100 ≤ toReal y2) (hY2b : toReal y2 ≤ 46 / 100) (hYY : |toReal y1 * toReal y2 - 1| ≤ 2 / 10 ^ 7)
    (x : Nat) (hx : Finite x) (h0 : 0 ≤ toReal x) (h1 : toReal x ≤ 1) :
    ∃ r1 r2, (if lt x thr1 then Out.ok zero1 else powf B x y1) = .ok r1 ∧
      (if lt r1 thr2 then Out.ok zero2 else powf B r1 y2) = .ok r2 ∧ Finite r2 ∧ |toReal r2 - toReal x| < 25 / 10 ^ 5 := by
  rw [not_lt_zero x thr1 hx ht1 h0]
  simp only [Bool.false_eq_true, if_false]
  rw [powf_nofast B hB]
  set X := toReal x with hX
  set Y1 := toReal y1 with hY1
  set Y2 := toReal y2 with hY2
  obtain ⟨hw1, hf1, he1⟩ := hL x y1 hx hy1 h0 (by linarith) (by rw [← hY1, abs_of_pos (by linarith)]; linarith) (fun _ => by rw [← hY1]; linarith)
  rw [← hX, ← hY1] at he1
  set r1 := B.libm.powf x y1 with hr1
  have hv0 : 0 ≤ X ^ Y1 := Real.rpow_nonneg h0 _
  have hv1 : X ^ Y1 ≤ 1 := Real.rpow_le_one h0 h1 (by linarith)
  obtain ⟨g1, g2⟩ := abs_le.mp he1
  have hr10 : 0 ≤ toReal r1 := by nlinarith
  have hr11 : toReal r1 ≤ 11 := by nlinarith
  have hlt : lt r1 thr2 = false := not_lt_zero r1 thr2 hf1 ht2 hr10
  obtain ⟨hw2, hf2, he2⟩ := hL r1 y2 hf1 hy2 hr10 hr11 (by rw [← hY2, abs_of_pos (by linarith)]; linarith) (fun _ => by rw [← hY2]; linarith)
  rw [← hY2] at he2
  refine ⟨r1, B.libm.powf r1 y2, rfl, by rw [hlt]; simp only [Bool.false_eq_true, if_false]; rw [powf_nofast B hB], hf2, ?_⟩
  rcases eq_or_lt_of_le h0 with hX0 | hXpos
  · have hv : X ^ Y1 = 0 := by rw [← hX0]; exact Real.zero_rpow (by linarith)
    rw [hv] at g1 g2
    have hr1z : toReal r1 = 0 := by linarith
    rw [hr1z, Real.zero_rpow (by linarith)] at he2
    have : toReal (B.libm.powf r1 y2) = 0 := by
      have h' : |toReal (B.libm.powf r1 y2) - 0| ≤ 0 := by simpa using he2
      have := abs_nonpos_iff.mp h'; linarith
    rw [this, ← hX0]; norm_num
  · have := RoundTrip.rt_real X Y1 Y2 (toReal r1) (toReal (B.libm.powf r1 y2)) (1 / 10 ^ 6) (1 / 10 ^ 6) hXpos h1 hY1a hY1b hY2a hY2b hYY
      (by norm_num) (by norm_num) he1 (by norm_num) (by norm_num) he2
    refine lt_of_le_of_lt this ?_
    nlinarith

/-- the three power pairs through their certificates -/
theorem pair_roundtrip_nofast (B : Build) (hB : B.fastmath = false) (hL : LibmPowOk B.libm) (thr1 zero1 y1 thr2 zero2 y2 : Nat)
    (hp : pairOk y1 y2 = true) (h1 : zeroOk thr1 = true) (h2 : zeroOk thr2 = true) :
    RoundTripWithin (fun x => if lt x thr1 then Out.ok zero1 else powf B x y1) (fun r => if lt r thr2 then Out.ok zero2 else powf B r y2) := by
  unfold pairOk at hp
  simp only [Bool.and_eq_true, decide_eq_true_eq] at hp
  obtain ⟨⟨⟨⟨⟨⟨f1, f2⟩, a1⟩, a2⟩, a3⟩, a4⟩, a5⟩ := hp
  obtain ⟨fy1, vy1⟩ := Exp2.rat_val y1 f1
  obtain ⟨fy2, vy2⟩ := Exp2.rat_val y2 f2
  intro x hxw hx h0 h1'
  have c1 : (2:ℝ) ≤ toReal y1 := by rw [vy1]; exact_mod_cast a1
  have c2 : toReal y1 ≤ 3 := by rw [vy1]; exact_mod_cast a2
  have c3 : (35:ℝ) / 100 ≤ toReal y2 := by
    rw [vy2]; have := (Rat.cast_le (K := ℝ)).mpr a3; push_cast at this; exact this
  have c4 : toReal y2 ≤ 46 / 100 := by
    rw [vy2]; have := (Rat.cast_le (K := ℝ)).mpr a4; push_cast at this; exact this
  have c5 : |toReal y1 * toReal y2 - 1| ≤ 2 / 10 ^ 7 := by
    rw [vy1, vy2]; have := (Rat.cast_le (K := ℝ)).mpr a5; push_cast at this; exact this
  exact roundtrip_pow_nofast B hB hL thr1 zero1 y1 thr2 zero2 y2 (zero_of' _ h1) (zero_of' _ h2) fy1 fy2 c1 c2 c3 c4 c5 x hx h0 h1'

/-- the characteristics covered without fastmath -/
def eleven : List TC :=
  [.BT1886, .ST170M, .ST240M, .BT2020Ten, .BT2020Twelve, .BT470M, .BT470BG, .Logarithmic100, .Logarithmic316, .HybridLogGamma, .Linear]

/-- **C20, C10 without fastmath**: for 11 of the 14 characteristics, gamma -> linear -> gamma returns every binary32 of `[0, 1]`
within 2.5e-4 in a build without `fastmath`, under the libm hypotheses -/
theorem nofast_roundtrip (B : Build) (hB : B.fastmath = false) (hP : LibmPowOk B.libm) (hE : LibmExpOk B.libm)
    (hL10 : LibmLog10Accurate B.libm) (hLn : LibmLnAccurate B.libm) (t : TC) (ht : t ∈ eleven) :
    ∃ f g, toLinearFn B t = .ok f ∧ toGammaFn B t = .ok g ∧ RoundTripWithin f g := by
  obtain ⟨p1, p2, p3, z1, z2, _, z4, z5, _, z7, z8, _⟩ := cert_pairs
  simp only [eleven, List.mem_cons, List.mem_nil_iff, or_false] at ht
  rcases ht with rfl | rfl | rfl | rfl | rfl | rfl | rfl | rfl | rfl | rfl | rfl
  · exact ⟨_, _, rfl, rfl, pair_roundtrip_nofast B hB hP _ _ _ _ _ _ p1 z1 z2⟩
  · exact ⟨_, _, rfl, rfl, pair_roundtrip_nofast B hB hP _ _ _ _ _ _ p1 z1 z2⟩
  · exact ⟨_, _, rfl, rfl, pair_roundtrip_nofast B hB hP _ _ _ _ _ _ p1 z1 z2⟩
  · exact ⟨_, _, rfl, rfl, pair_roundtrip_nofast B hB hP _ _ _ _ _ _ p1 z1 z2⟩
  · exact ⟨_, _, rfl, rfl, pair_roundtrip_nofast B hB hP _ _ _ _ _ _ p1 z1 z2⟩
  · exact ⟨_, _, rfl, rfl, pair_roundtrip_nofast B hB hP _ _ _ _ _ _ p2 z4 z5⟩
  · exact ⟨_, _, rfl, rfl, pair_roundtrip_nofast B hB hP _ _ _ _ _ _ p3 z7 z8⟩
  · exact ⟨_, _, rfl, rfl, log100_roundtrip_o B _ (nofast_oracle10 B hB hP) (by norm_num) hL10⟩
  · exact ⟨_, _, rfl, rfl, log316_roundtrip_o B _ (nofast_oracle10 B hB hP) (by norm_num) hL10⟩
  · exact ⟨_, _, rfl, rfl, hlg_roundtrip_o B (nofast_oracle_exp B hB hE) hLn⟩
  · exact ⟨_, _, rfl, rfl, fun x _ hx _ _ => ⟨x, x, rfl, rfl, hx, by rw [sub_self, abs_zero]; norm_num⟩⟩

end C20
