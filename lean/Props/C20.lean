import Model.Cargo
import Model.Math
/-! C20 — build configuration changes precision only, never semantics: the feature-wiring part.
`Generated/Manifests.lean` is regenerated from both Cargo.toml files on every run; these theorems are re-decided. -/
namespace C20
open CargoM Manifests

/-- default features: yuvxyb-math is compiled with `fastmath` -/
theorem default_enables_fastmath : mathFastmath true [] = true := by decide

/-- `--no-default-features` (the documented way to get libm math): `fastmath` is NOT enabled in yuvxyb-math -/
theorem no_default_disables_fastmath : mathFastmath false [] = false := by decide

/-- `--no-default-features --features fastmath` switches it back on; the hooks feature never touches it -/
theorem explicit_fastmath : mathFastmath false [FASTMATH] = true ∧ mathFastmath false [HOOKS] = false := by decide

/-- the hooks feature is off unless asked for, in both crates -/
theorem hooks_off_by_default : (enabled root true []).contains HOOKS = false ∧ (mathFeatures true []).contains HOOKS = false := by decide

/-- with `fastmath` off the three helpers ARE the libm parameter (the wrappers add nothing) -/
theorem nofast_is_libm (B : Build) (h : B.fastmath = false) (x y : Nat) :
    MathM.powf B x y = .ok (B.libm.powf x y) ∧ MathM.expf B x = .ok (B.libm.expf x) ∧ MathM.cbrtf B x = B.libm.cbrt x := by
  simp [MathM.powf, MathM.expf, MathM.cbrtf, h]

end C20
