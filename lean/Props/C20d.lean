import Props.C20c
import Props.C03j
/-! C20, "the two builds agree with each other within the fastmath budget": corollary of the two accuracy theorems. -/
namespace C20
open F32 MathM TransferM C03

/-- **C20, the two builds agree**: for the 13 characteristics of `C03.thirteen` and both directions, a build with `fastmath`
and a build without it (each under its libm hypotheses) return, for EVERY binary32 of `[0, 1]`, finite values that differ by
less than 3e-4 (2.5e-4 for the fast path + 5e-5 for libm, both against the same defining formula). -/
theorem builds_agree (Bf Bn : Build) (hf : Bf.fastmath = true) (hn : Bn.fastmath = false)
    (hL10f : LibmLog10Accurate Bf.libm) (hLnf : LibmLnAccurate Bf.libm)
    (hP : LibmPowOk Bn.libm) (hE : LibmExpOk Bn.libm) (hL10n : LibmLog10Accurate Bn.libm) (hLnn : LibmLnAccurate Bn.libm)
    (t : TC) (ht : t ∈ thirteen) (x : Nat) (hxw : WF x) (hx : Finite x) (h0 : 0 ≤ toReal x) (h1 : toReal x ≤ 1) :
    (∃ f g a b, toLinearFn Bf t = .ok f ∧ toLinearFn Bn t = .ok g ∧ f x = .ok a ∧ g x = .ok b ∧ Finite a ∧ Finite b ∧
      |toReal a - toReal b| < 3 / 10 ^ 4) ∧
    (∃ f g a b, toGammaFn Bf t = .ok f ∧ toGammaFn Bn t = .ok g ∧ f x = .ok a ∧ g x = .ok b ∧ Finite a ∧ Finite b ∧
      |toReal a - toReal b| < 3 / 10 ^ 4) := by
  obtain ⟨⟨f1, hf1, c1⟩, ⟨g1, hg1, d1⟩⟩ := C03.accuracy Bf hf hL10f hLnf t ht
  obtain ⟨⟨f2, hf2, c2⟩, ⟨g2, hg2, d2⟩⟩ := nofast_accuracy Bn hn hP hE hL10n hLnn t ht
  obtain ⟨a, ha1, ha2, ha3⟩ := c1 x hxw hx h0 h1
  obtain ⟨b, hb1, hb2, hb3⟩ := c2 x hxw hx h0 h1
  obtain ⟨a', ha1', ha2', ha3'⟩ := d1 x hxw hx h0 h1
  obtain ⟨b', hb1', hb2', hb3'⟩ := d2 x hxw hx h0 h1
  refine ⟨⟨f1, f2, a, b, hf1, hf2, ha1, hb1, ha2, hb2, ?_⟩, ⟨g1, g2, a', b', hg1, hg2, ha1', hb1', ha2', hb2', ?_⟩⟩
  · have e : toReal a - toReal b = (toReal a - specToLinear t (toReal x)) - (toReal b - specToLinear t (toReal x)) := by ring
    rw [e]
    have := abs_sub (toReal a - specToLinear t (toReal x)) (toReal b - specToLinear t (toReal x))
    linarith
  · have e : toReal a' - toReal b' = (toReal a' - specToGamma t (toReal x)) - (toReal b' - specToGamma t (toReal x)) := by ring
    rw [e]
    have := abs_sub (toReal a' - specToGamma t (toReal x)) (toReal b' - specToGamma t (toReal x))
    linarith

end C20
