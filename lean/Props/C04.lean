import Proofs.XybChan
import Proofs.RatCheck
import Model.Types
/-! C04 — linear RGB -> XYB equals the JPEG XL opsin definition.

Specification (exact reals; the constants are the decimal literals of the property text, kept as rationals):
`X = (L - M)/2, Y = (L + M)/2, B = S`, `(L, M, S) = cbrt(max 0 (A rgb + b)) - cbrt b`.
Theorem `xyb_close`: for the fastmath build and every finite pixel with components in [-1, 4] that is either non-negative
(hence every pixel of [0,4]^3) or has every opsin mix `≤ -1/1000` or `≥ 1/20`, each component of the model's `lrgbToXyb` is within
2e-6 of the specification. Kernel-checked; constants are the ones regenerated from the source. -/
namespace C04
open F32 Real Cbrt Xyb PixelM

-- the opsin absorbance matrix and bias of libjxl, as exact rationals
noncomputable def A00 : ℝ := 30 / 100
noncomputable def A01 : ℝ := 622 / 1000
noncomputable def A02 : ℝ := 78 / 1000
noncomputable def A10 : ℝ := 23 / 100
noncomputable def A11 : ℝ := 692 / 1000
noncomputable def A12 : ℝ := 78 / 1000
noncomputable def A20 : ℝ := 24342268924547819 / 100000000000000000
noncomputable def A21 : ℝ := 20476744424496821 / 100000000000000000
noncomputable def A22 : ℝ := 55180986650955360 / 100000000000000000
noncomputable def bias : ℝ := 37930732552754493 / 10000000000000000000

/-- the three opsin mixes `A rgb + b` -/
noncomputable def mix0 (r g b : ℝ) : ℝ := mixR A00 A01 A02 bias r g b
noncomputable def mix1 (r g b : ℝ) : ℝ := mixR A10 A11 A12 bias r g b
noncomputable def mix2 (r g b : ℝ) : ℝ := mixR A20 A21 A22 bias r g b

noncomputable def specL (r g b : ℝ) : ℝ := cbrtR (mix0 r g b) - cbrtR bias
noncomputable def specM (r g b : ℝ) : ℝ := cbrtR (mix1 r g b) - cbrtR bias
noncomputable def specS (r g b : ℝ) : ℝ := cbrtR (mix2 r g b) - cbrtR bias
noncomputable def specX (r g b : ℝ) : ℝ := (specL r g b - specM r g b) / 2
noncomputable def specY (r g b : ℝ) : ℝ := (specL r g b + specM r g b) / 2

/-- `mixR` is literally `A rgb + b` -/
theorem mix0_def (r g b : ℝ) : mix0 r g b = 30 / 100 * r + 622 / 1000 * g + 78 / 1000 * b + bias := by unfold mix0 mixR A00 A01 A02; ring

/-- a model constant within relative 5e-8 of its exact value (`p/q > 0`), decided in integer arithmetic -/
theorem apx_of_check (a : Nat) (p q num den : Nat) (hq : 0 < q) (hden : 0 < den) (h : CheckDecode.ratDiffLe a p q num den = true)
    (hle : (num:ℝ) / den ≤ 1 / 20000000 * ((p:ℝ) / q)) : Apx a ((p:ℝ) / q) (1 / 20000000) := by
  obtain ⟨hf, he⟩ := CheckDecode.ratDiffLe_sound a p q num den hq hden h
  have hp : (0:ℝ) ≤ (p:ℝ) / q := by positivity
  refine ⟨hf, ?_⟩
  rw [abs_of_nonneg hp]
  have : ((p:ℤ):ℝ) = (p:ℝ) := by norm_cast
  rw [this] at he
  linarith

theorem k00 : Apx K_M00 A00 (1 / 20000000) := by
  have := apx_of_check K_M00 30 100 15 1000000000 (by norm_num) (by norm_num) (by decide +kernel) (by norm_num)
  unfold A00; exact_mod_cast this
theorem k01 : Apx K_M01 A01 (1 / 20000000) := by
  have := apx_of_check K_M01 622 1000 311 10000000000 (by norm_num) (by norm_num) (by decide +kernel) (by norm_num)
  unfold A01; exact_mod_cast this
theorem k02 : Apx K_M02 A02 (1 / 20000000) := by
  have := apx_of_check K_M02 78 1000 39 10000000000 (by norm_num) (by norm_num) (by decide +kernel) (by norm_num)
  unfold A02; exact_mod_cast this
theorem k10 : Apx K_M10 A10 (1 / 20000000) := by
  have := apx_of_check K_M10 23 100 115 10000000000 (by norm_num) (by norm_num) (by decide +kernel) (by norm_num)
  unfold A10; exact_mod_cast this
theorem k11 : Apx K_M11 A11 (1 / 20000000) := by
  have := apx_of_check K_M11 692 1000 346 10000000000 (by norm_num) (by norm_num) (by decide +kernel) (by norm_num)
  unfold A11; exact_mod_cast this
theorem k12 : Apx K_M12 A12 (1 / 20000000) := by
  have := apx_of_check K_M12 78 1000 39 10000000000 (by norm_num) (by norm_num) (by decide +kernel) (by norm_num)
  unfold A12; exact_mod_cast this
theorem k20 : Apx K_M20 A20 (1 / 20000000) := by
  have := apx_of_check K_M20 24342268924547819 100000000000000000 12 1000000000 (by norm_num) (by norm_num) (by decide +kernel) (by norm_num)
  unfold A20; exact_mod_cast this
theorem k21 : Apx K_M21 A21 (1 / 20000000) := by
  have := apx_of_check K_M21 20476744424496821 100000000000000000 1 100000000 (by norm_num) (by norm_num) (by decide +kernel) (by norm_num)
  unfold A21; exact_mod_cast this
theorem k22 : Apx K_M22 A22 (1 / 20000000) := by
  have := apx_of_check K_M22 55180986650955360 100000000000000000 27 1000000000 (by norm_num) (by norm_num) (by decide +kernel) (by norm_num)
  unfold A22; exact_mod_cast this
theorem kb : Apx K_B0 bias (1 / 20000000) := by
  have := apx_of_check K_B0 37930732552754493 10000000000000000000 18 100000000000 (by norm_num) (by norm_num) (by decide +kernel) (by norm_num)
  unfold bias; exact_mod_cast this

/-- pixels the theorem covers: finite components in [-1, 4] -/
structure PixOk (p : Mat32.V3) : Prop where
  fx : Finite p.x
  fy : Finite p.y
  fz : Finite p.z
  bx : -1 ≤ toReal p.x ∧ toReal p.x ≤ 4
  bY : -1 ≤ toReal p.y ∧ toReal p.y ≤ 4
  bz : -1 ≤ toReal p.z ∧ toReal p.z ≤ 4

theorem fma_wf (a b c : Nat) : WF (F32.fma a b c) := by
  unfold F32.fma
  repeat' split
  all_goals first | exact qnan_wf | exact infB_wf _ | exact signBit_wf _ | exact roundPack_wf _ _ _

theorem abs4 (t : ℝ) (h : -1 ≤ t ∧ t ≤ 4) : |t| ≤ 4 := by rw [abs_le]; constructor <;> linarith [h.1, h.2]

theorem bias_bounds : 37 / 10000 ≤ bias ∧ bias ≤ 4 / 1000 := by unfold bias; constructor <;> norm_num

/-- one channel: mix, clamp and cube root are within 1.41e-6 of the real cube root of the exact mix -/
theorem chan (B : Build) (hB : B.fastmath = true) (k0 k1 k2 : Nat) (K0 K1 K2 : ℝ)
    (h0 : Apx k0 K0 (1 / 20000000)) (h1 : Apx k1 K1 (1 / 20000000)) (h2 : Apx k2 K2 (1 / 20000000))
    (hK0 : 0 < K0 ∧ K0 ≤ 31 / 100) (hK1 : 0 < K1) (hK2 : 0 < K2 ∧ K2 ≤ 56 / 100) (hsum : K0 + K1 + K2 ≤ 1)
    (p : Mat32.V3) (hp : PixOk p)
    (hc : (0 ≤ toReal p.x ∧ 0 ≤ toReal p.y ∧ 0 ≤ toReal p.z) ∨
      (mixR K0 K1 K2 bias (toReal p.x) (toReal p.y) (toReal p.z) ≤ -1 / 1000 ∨ 1 / 20 ≤ mixR K0 K1 K2 bias (toReal p.x) (toReal p.y) (toReal p.z))) :
    Finite (stage B (row k0 k1 k2 K_B0 p)) ∧
    |toReal (stage B (row k0 k1 k2 K_B0 p)) - cbrtR (mixR K0 K1 K2 bias (toReal p.x) (toReal p.y) (toReal p.z))| ≤ 141 / 100000000 ∧
    |toReal (stage B (row k0 k1 k2 K_B0 p))| ≤ 161 / 100 := by
  have hw : WF (row k0 k1 k2 K_B0 p) := fma_wf _ _ _
  have hbb := bias_bounds
  have ax := abs4 _ hp.bx; have ay := abs4 _ hp.bY; have az := abs4 _ hp.bz
  set x := toReal p.x; set y := toReal p.y; set z := toReal p.z
  have hK1le : K1 ≤ 1 := by linarith [hK0.1, hK2.1]
  -- |v| ≤ 4.004
  have hvabs : |mixR K0 K1 K2 bias x y z| ≤ 4004 / 1000 := by
    unfold mixR
    have t1 := abs_add_le (K0 * x) (K1 * y + (K2 * z + bias))
    have t2 := abs_add_le (K1 * y) (K2 * z + bias)
    have t3 := abs_add_le (K2 * z) bias
    have m0 : |K0 * x| ≤ K0 * 4 := by rw [abs_mul, abs_of_pos hK0.1]; exact mul_le_mul_of_nonneg_left ax hK0.1.le
    have m1 : |K1 * y| ≤ K1 * 4 := by rw [abs_mul, abs_of_pos hK1]; exact mul_le_mul_of_nonneg_left ay hK1.le
    have m2 : |K2 * z| ≤ K2 * 4 := by rw [abs_mul, abs_of_pos hK2.1]; exact mul_le_mul_of_nonneg_left az hK2.1.le
    have mb : |bias| ≤ 4 / 1000 := by rw [abs_of_nonneg (by linarith [hbb.1])]; exact hbb.2
    linarith
  obtain ⟨hvl, hvh⟩ := abs_le.mp hvabs
  rcases hc with ⟨px, py, pz⟩ | hneg | hpos
  · -- non-negative pixel: relative analysis
    have hr := row_rel k0 k1 k2 K_B0 p K0 K1 K2 bias h0 h1 h2 kb ⟨hK0.1, by linarith [hK0.2]⟩ ⟨hK1, hK1le⟩ ⟨hK2.1, by linarith [hK2.2]⟩ hbb
      hp.fx hp.fy hp.fz ⟨px, hp.bx.2⟩ ⟨py, hp.bY.2⟩ ⟨pz, hp.bz.2⟩
    have hvlo : 37 / 10000 ≤ mixR K0 K1 K2 bias x y z := by
      unfold mixR
      have := mul_nonneg hK0.1.le px; have := mul_nonneg hK1.le py; have := mul_nonneg hK2.1.le pz
      linarith [hbb.1]
    exact chan_rel B hB _ hw hr.1 _ ⟨hvlo, by linarith⟩ hr.2
  · obtain ⟨hf, he⟩ := row_abs k0 k1 k2 K_B0 p K0 K1 K2 bias h0 h1 h2 kb hK0 hK1 hK2 hsum ⟨by linarith [hbb.1], hbb.2⟩ hp.fx hp.fy hp.fz ax ay az
    exact chan_neg B hB _ hf _ ⟨hneg, by linarith⟩ he
  · obtain ⟨hf, he⟩ := row_abs k0 k1 k2 K_B0 p K0 K1 K2 bias h0 h1 h2 kb hK0 hK1 hK2 hsum ⟨by linarith [hbb.1], hbb.2⟩ hp.fx hp.fy hp.fz ax ay az
    exact chan_abs B hB _ hw hf _ ⟨hpos, by linarith⟩ he

theorem f64to32_wf (t : Nat) : WF (Conv.f64to32 t) := by
  unfold Conv.f64to32
  split
  · exact qnan_wf
  · exact infB_wf _
  · exact roundPack_wf _ _ _

/-- the bias term `-cbrtf(K_B0)` is within 1.3e-8 of `-cbrt(b)` -/
theorem ab_val (B : Build) (hB : B.fastmath = true) :
    Finite (F32.neg (MathM.cbrtf B K_B0)) ∧ |toReal (F32.neg (MathM.cbrtf B K_B0)) - (-cbrtR bias)| ≤ 13 / 1000000000 ∧
    WF (F32.neg (MathM.cbrtf B K_B0)) := by
  have hbb := bias_bounds
  have hkb := kb
  have he := hkb.2
  have hb' : |bias| = bias := abs_of_pos (by linarith [hbb.1])
  rw [hb'] at he
  obtain ⟨e1, e2⟩ := abs_le.mp he
  have hw : WF K_B0 := by unfold WF; decide +kernel
  have hlo : 36 / 10000 ≤ toReal K_B0 := by nlinarith [hbb.1]
  obtain ⟨fs, es⟩ := stage_pos B hB K_B0 hw hkb.1 hlo
  have hst : stage B K_B0 = MathM.cbrtf B K_B0 := by
    have hlt : F32.lt K_B0 C.linear_rgb_to_xyb_f1 = false := by decide +kernel
    unfold stage; rw [hlt]; simp
  rw [hst] at fs es
  have hcw : WF (MathM.cbrtf B K_B0) := by
    unfold MathM.cbrtf; rw [if_pos hB]; rw [Cbrt.cbrtfFast_eq]; exact f64to32_wf _
  obtain ⟨fn, tn⟩ := toReal_neg _ hcw fs
  refine ⟨fn, ?_, neg_wf _ hcw⟩
  rw [tn]
  set a := toReal K_B0 with ha
  have hapos : 0 < a := by linarith
  have hbpos : 0 < bias := by linarith [hbb.1]
  have hq3 : cbrtR bias ^ 3 = bias := cbrtR_cube_pos _ hbpos.le
  have hp3 : cbrtR a ^ 3 = a := cbrtR_cube_pos _ hapos.le
  have hm1 : (153 / 1000 : ℝ) ≤ cbrtR bias := cbrtR_ge _ _ (by norm_num) (by norm_num; linarith [hbb.1])
  have hm2 : (153 / 1000 : ℝ) ≤ cbrtR a := cbrtR_ge _ _ (by norm_num) (by norm_num; linarith)
  have hp := cube_pert (cbrtR a) (cbrtR bias) (153 / 1000) (by norm_num) hm2 hm1
  rw [hp3, hq3] at hp
  have hd : |cbrtR a - cbrtR bias| ≤ 3 / 1000000000 := by
    refine le_trans hp ?_
    rw [div_le_iff₀ (by norm_num)]
    have : |a - bias| ≤ 1 / 20000000 * bias := by rw [abs_le]; exact ⟨e1, e2⟩
    nlinarith [hbb.2]
  have hahi : cbrtR a ≤ 16 / 100 := cbrtR_le _ _ (by norm_num) (by norm_num; nlinarith [hbb.2])
  have hu := u_val
  have hs : |toReal (MathM.cbrtf B K_B0) - cbrtR a| ≤ 6 / 100000000 * (16 / 100) := by
    refine le_trans es ?_
    rw [hu]; nlinarith [cbrtR_nonneg a]
  have t := abs_sub_le (toReal (MathM.cbrtf B K_B0)) (cbrtR a) (cbrtR bias)
  have : -toReal (MathM.cbrtf B K_B0) - -cbrtR bias = -(toReal (MathM.cbrtf B K_B0) - cbrtR bias) := by ring
  rw [this, abs_neg]
  linarith

/-- one of L, M, S as the model computes it: `cbrtf(clamp(mix)) + (-cbrtf(K_B0))`, within 1.53e-6 of `cbrt(max 0 mix) - cbrt b` -/
theorem lms (B : Build) (hB : B.fastmath = true) (k0 k1 k2 : Nat) (K0 K1 K2 : ℝ)
    (h0 : Apx k0 K0 (1 / 20000000)) (h1 : Apx k1 K1 (1 / 20000000)) (h2 : Apx k2 K2 (1 / 20000000))
    (hK0 : 0 < K0 ∧ K0 ≤ 31 / 100) (hK1 : 0 < K1) (hK2 : 0 < K2 ∧ K2 ≤ 56 / 100) (hsum : K0 + K1 + K2 ≤ 1)
    (p : Mat32.V3) (hp : PixOk p)
    (hc : (0 ≤ toReal p.x ∧ 0 ≤ toReal p.y ∧ 0 ≤ toReal p.z) ∨
      (mixR K0 K1 K2 bias (toReal p.x) (toReal p.y) (toReal p.z) ≤ -1 / 1000 ∨ 1 / 20 ≤ mixR K0 K1 K2 bias (toReal p.x) (toReal p.y) (toReal p.z))) :
    Finite (F32.add (stage B (row k0 k1 k2 K_B0 p)) (F32.neg (MathM.cbrtf B K_B0))) ∧
    WF (F32.add (stage B (row k0 k1 k2 K_B0 p)) (F32.neg (MathM.cbrtf B K_B0))) ∧
    |toReal (F32.add (stage B (row k0 k1 k2 K_B0 p)) (F32.neg (MathM.cbrtf B K_B0))) -
      (cbrtR (mixR K0 K1 K2 bias (toReal p.x) (toReal p.y) (toReal p.z)) - cbrtR bias)| ≤ 153 / 100000000 ∧
    |toReal (F32.add (stage B (row k0 k1 k2 K_B0 p)) (F32.neg (MathM.cbrtf B K_B0)))| ≤ 179 / 100 := by
  obtain ⟨fs, es, bs⟩ := chan B hB k0 k1 k2 K0 K1 K2 h0 h1 h2 hK0 hK1 hK2 hsum p hp hc
  obtain ⟨fa, ea, _⟩ := ab_val B hB
  have hbb := bias_bounds
  have hcb0 : 0 ≤ cbrtR bias := cbrtR_nonneg _
  have hcb : cbrtR bias ≤ 16 / 100 := cbrtR_le _ _ (by norm_num) (by norm_num; linarith [hbb.2])
  set S := toReal (stage B (row k0 k1 k2 K_B0 p))
  set Ab := toReal (F32.neg (MathM.cbrtf B K_B0))
  have hAb : |Ab| ≤ 17 / 100 := by
    have := abs_sub_abs_le_abs_sub Ab (-cbrtR bias)
    rw [abs_neg, abs_of_nonneg hcb0] at this; linarith
  have hsum' : |S + Ab| ≤ 178 / 100 := le_trans (abs_add_le _ _) (by linarith)
  obtain ⟨fl, el⟩ := add_val _ _ fs fa (fit_small _ (by linarith))
  refine ⟨fl, add_wf _ _, ?_, ?_⟩
  · have hu := u_val
    have he := eta_le
    have h1 : u * |S + Ab| ≤ u * (178 / 100) := mul_le_mul_of_nonneg_left hsum' u_pos.le
    set L := toReal (F32.add (stage B (row k0 k1 k2 K_B0 p)) (F32.neg (MathM.cbrtf B K_B0)))
    set v := mixR K0 K1 K2 bias (toReal p.x) (toReal p.y) (toReal p.z)
    have e : L - (cbrtR v - cbrtR bias) = (L - (S + Ab)) + (S - cbrtR v) + (Ab - -cbrtR bias) := by ring
    rw [e]
    have t1 := abs_add_le ((L - (S + Ab)) + (S - cbrtR v)) (Ab - -cbrtR bias)
    have t2 := abs_add_le (L - (S + Ab)) (S - cbrtR v)
    rw [hu] at h1 el
    linarith
  · have hu := u_val
    have he := eta_le
    have h1 : u * |S + Ab| ≤ u * (178 / 100) := mul_le_mul_of_nonneg_left hsum' u_pos.le
    have := abs_sub_abs_le_abs_sub (toReal (F32.add (stage B (row k0 k1 k2 K_B0 p)) (F32.neg (MathM.cbrtf B K_B0)))) (S + Ab)
    rw [hu] at h1 el
    linarith

/-- the precondition of C04 on the exact mixes: either the pixel is non-negative, or every mix is at most -1/1000 or at least 1/20 -/
def Cond (r g b : ℝ) : Prop :=
  (0 ≤ r ∧ 0 ≤ g ∧ 0 ≤ b) ∨
  ((mix0 r g b ≤ -1 / 1000 ∨ 1 / 20 ≤ mix0 r g b) ∧ (mix1 r g b ≤ -1 / 1000 ∨ 1 / 20 ≤ mix1 r g b) ∧ (mix2 r g b ≤ -1 / 1000 ∨ 1 / 20 ≤ mix2 r g b))

theorem half_val : Finite C.mixed_to_xyb_f1 ∧ toReal C.mixed_to_xyb_f1 = 1 / 2 ∧ Finite C.mixed_to_xyb_f2 ∧ toReal C.mixed_to_xyb_f2 = 1 / 2 := by
  have h1 : decode C.mixed_to_xyb_f1 = .fin false 8388608 (-24) := by decide +kernel
  have h2 : decode C.mixed_to_xyb_f2 = .fin false 8388608 (-24) := by decide +kernel
  have hv : valR false 8388608 (-24) = 1 / 2 := by unfold valR; norm_num
  exact ⟨⟨_, _, _, h1⟩, by rw [toReal_of_decode _ _ _ _ h1, hv], ⟨_, _, _, h2⟩, by rw [toReal_of_decode _ _ _ _ h2, hv]⟩

/-- **C04**: every component of the model's linear RGB -> XYB conversion is within 2e-6 of the opsin definition -/
theorem xyb_close (B : Build) (hB : B.fastmath = true) (p : Mat32.V3) (hp : PixOk p) (hc : Cond (toReal p.x) (toReal p.y) (toReal p.z)) :
    let o := lrgbToXyb B p
    (Finite o.x ∧ Finite o.y ∧ Finite o.z) ∧
    |toReal o.x - specX (toReal p.x) (toReal p.y) (toReal p.z)| ≤ 2 / 1000000 ∧
    |toReal o.y - specY (toReal p.x) (toReal p.y) (toReal p.z)| ≤ 2 / 1000000 ∧
    |toReal o.z - specS (toReal p.x) (toReal p.y) (toReal p.z)| ≤ 2 / 1000000 := by
  intro o
  have c0 : (0 ≤ toReal p.x ∧ 0 ≤ toReal p.y ∧ 0 ≤ toReal p.z) ∨ (mixR A00 A01 A02 bias (toReal p.x) (toReal p.y) (toReal p.z) ≤ -1 / 1000 ∨ 1 / 20 ≤ mixR A00 A01 A02 bias (toReal p.x) (toReal p.y) (toReal p.z)) := by
    rcases hc with h | h
    · exact Or.inl h
    · exact Or.inr h.1
  have c1 : (0 ≤ toReal p.x ∧ 0 ≤ toReal p.y ∧ 0 ≤ toReal p.z) ∨ (mixR A10 A11 A12 bias (toReal p.x) (toReal p.y) (toReal p.z) ≤ -1 / 1000 ∨ 1 / 20 ≤ mixR A10 A11 A12 bias (toReal p.x) (toReal p.y) (toReal p.z)) := by
    rcases hc with h | h
    · exact Or.inl h
    · exact Or.inr h.2.1
  have c2 : (0 ≤ toReal p.x ∧ 0 ≤ toReal p.y ∧ 0 ≤ toReal p.z) ∨ (mixR A20 A21 A22 bias (toReal p.x) (toReal p.y) (toReal p.z) ≤ -1 / 1000 ∨ 1 / 20 ≤ mixR A20 A21 A22 bias (toReal p.x) (toReal p.y) (toReal p.z)) := by
    rcases hc with h | h
    · exact Or.inl h
    · exact Or.inr h.2.2
  obtain ⟨fL, wL, eL, bL⟩ := lms B hB K_M00 K_M01 K_M02 A00 A01 A02 k00 k01 k02 (by unfold A00; norm_num) (by unfold A01; norm_num) (by unfold A02; norm_num)
    (by unfold A00 A01 A02; norm_num) p hp c0
  obtain ⟨fM, wM, eM, bM⟩ := lms B hB K_M10 K_M11 K_M12 A10 A11 A12 k10 k11 k12 (by unfold A10; norm_num) (by unfold A11; norm_num) (by unfold A12; norm_num)
    (by unfold A10 A11 A12; norm_num) p hp c1
  obtain ⟨fS, wS, eS, bS⟩ := lms B hB K_M20 K_M21 K_M22 A20 A21 A22 k20 k21 k22 (by unfold A20; norm_num) (by unfold A21; norm_num) (by unfold A22; norm_num)
    (by unfold A20 A21 A22; norm_num) p hp c2
  obtain ⟨fh1, th1, fh2, th2⟩ := half_val
  set l := F32.add (stage B (row K_M00 K_M01 K_M02 K_B0 p)) (F32.neg (MathM.cbrtf B K_B0)) with hl
  set m := F32.add (stage B (row K_M10 K_M11 K_M12 K_B0 p)) (F32.neg (MathM.cbrtf B K_B0)) with hm
  set s := F32.add (stage B (row K_M20 K_M21 K_M22 K_B0 p)) (F32.neg (MathM.cbrtf B K_B0)) with hs
  have ho : o = ⟨F32.mul C.mixed_to_xyb_f1 (F32.sub l m), F32.mul C.mixed_to_xyb_f2 (F32.add l m), s⟩ := rfl
  have hu := u_val
  have he := eta_le
  have hup := u_pos
  -- X
  have hdiff : |toReal l - toReal m| ≤ 358 / 100 := le_trans (abs_sub _ _) (by linarith)
  obtain ⟨fsb, esb⟩ := sub_val l m wM fL fM (fit_small _ (by linarith))
  have bsb : Bnd (F32.sub l m) (36 / 10) := ⟨fsb, by
    have := abs_sub_abs_le_abs_sub (toReal (F32.sub l m)) (toReal l - toReal m)
    have h1 : u * |toReal l - toReal m| ≤ u * (358 / 100) := mul_le_mul_of_nonneg_left hdiff hup.le
    rw [hu] at h1 esb; linarith⟩
  obtain ⟨bX, eX⟩ := mul_bnd C.mixed_to_xyb_f1 (F32.sub l m) (1 / 2) (36 / 10) ⟨fh1, by rw [th1]; norm_num⟩ bsb (fit_small _ (by norm_num))
  -- Y
  have hsum : |toReal l + toReal m| ≤ 358 / 100 := le_trans (abs_add_le _ _) (by linarith)
  obtain ⟨fad, ead⟩ := add_val l m fL fM (fit_small _ (by linarith))
  have bad : Bnd (F32.add l m) (36 / 10) := ⟨fad, by
    have := abs_sub_abs_le_abs_sub (toReal (F32.add l m)) (toReal l + toReal m)
    have h1 : u * |toReal l + toReal m| ≤ u * (358 / 100) := mul_le_mul_of_nonneg_left hsum hup.le
    rw [hu] at h1 ead; linarith⟩
  obtain ⟨bY, eY⟩ := mul_bnd C.mixed_to_xyb_f2 (F32.add l m) (1 / 2) (36 / 10) ⟨fh2, by rw [th2]; norm_num⟩ bad (fit_small _ (by norm_num))
  rw [ho]
  refine ⟨⟨bX.1, bY.1, fS⟩, ?_, ?_, ?_⟩
  · show |toReal (F32.mul C.mixed_to_xyb_f1 (F32.sub l m)) - specX _ _ _| ≤ _
    unfold specX specL specM mix0 mix1
    set Lr := cbrtR (mixR A00 A01 A02 bias (toReal p.x) (toReal p.y) (toReal p.z)) - cbrtR bias
    set Mr := cbrtR (mixR A10 A11 A12 bias (toReal p.x) (toReal p.y) (toReal p.z)) - cbrtR bias
    rw [th1] at eX
    have h1 : u * |toReal l - toReal m| ≤ u * (358 / 100) := mul_le_mul_of_nonneg_left hdiff hup.le
    rw [hu] at h1 esb eX
    have e : toReal (F32.mul C.mixed_to_xyb_f1 (F32.sub l m)) - (Lr - Mr) / 2 =
        (toReal (F32.mul C.mixed_to_xyb_f1 (F32.sub l m)) - 1 / 2 * toReal (F32.sub l m)) + 1 / 2 * (toReal (F32.sub l m) - (toReal l - toReal m))
        + 1 / 2 * (toReal l - Lr) - 1 / 2 * (toReal m - Mr) := by ring
    rw [e]
    have t1 := abs_sub ((toReal (F32.mul C.mixed_to_xyb_f1 (F32.sub l m)) - 1 / 2 * toReal (F32.sub l m)) + 1 / 2 * (toReal (F32.sub l m) - (toReal l - toReal m)) + 1 / 2 * (toReal l - Lr)) (1 / 2 * (toReal m - Mr))
    have t2 := abs_add_le ((toReal (F32.mul C.mixed_to_xyb_f1 (F32.sub l m)) - 1 / 2 * toReal (F32.sub l m)) + 1 / 2 * (toReal (F32.sub l m) - (toReal l - toReal m))) (1 / 2 * (toReal l - Lr))
    have t3 := abs_add_le (toReal (F32.mul C.mixed_to_xyb_f1 (F32.sub l m)) - 1 / 2 * toReal (F32.sub l m)) (1 / 2 * (toReal (F32.sub l m) - (toReal l - toReal m)))
    have a1 : |1 / 2 * (toReal (F32.sub l m) - (toReal l - toReal m))| = 1 / 2 * |toReal (F32.sub l m) - (toReal l - toReal m)| := by rw [abs_mul]; norm_num
    have a2 : |1 / 2 * (toReal l - Lr)| = 1 / 2 * |toReal l - Lr| := by rw [abs_mul]; norm_num
    have a3 : |1 / 2 * (toReal m - Mr)| = 1 / 2 * |toReal m - Mr| := by rw [abs_mul]; norm_num
    linarith
  · show |toReal (F32.mul C.mixed_to_xyb_f2 (F32.add l m)) - specY _ _ _| ≤ _
    unfold specY specL specM mix0 mix1
    set Lr := cbrtR (mixR A00 A01 A02 bias (toReal p.x) (toReal p.y) (toReal p.z)) - cbrtR bias
    set Mr := cbrtR (mixR A10 A11 A12 bias (toReal p.x) (toReal p.y) (toReal p.z)) - cbrtR bias
    rw [th2] at eY
    have h1 : u * |toReal l + toReal m| ≤ u * (358 / 100) := mul_le_mul_of_nonneg_left hsum hup.le
    rw [hu] at h1 ead eY
    have e : toReal (F32.mul C.mixed_to_xyb_f2 (F32.add l m)) - (Lr + Mr) / 2 =
        (toReal (F32.mul C.mixed_to_xyb_f2 (F32.add l m)) - 1 / 2 * toReal (F32.add l m)) + 1 / 2 * (toReal (F32.add l m) - (toReal l + toReal m))
        + 1 / 2 * (toReal l - Lr) + 1 / 2 * (toReal m - Mr) := by ring
    rw [e]
    have t1 := abs_add_le ((toReal (F32.mul C.mixed_to_xyb_f2 (F32.add l m)) - 1 / 2 * toReal (F32.add l m)) + 1 / 2 * (toReal (F32.add l m) - (toReal l + toReal m)) + 1 / 2 * (toReal l - Lr)) (1 / 2 * (toReal m - Mr))
    have t2 := abs_add_le ((toReal (F32.mul C.mixed_to_xyb_f2 (F32.add l m)) - 1 / 2 * toReal (F32.add l m)) + 1 / 2 * (toReal (F32.add l m) - (toReal l + toReal m))) (1 / 2 * (toReal l - Lr))
    have t3 := abs_add_le (toReal (F32.mul C.mixed_to_xyb_f2 (F32.add l m)) - 1 / 2 * toReal (F32.add l m)) (1 / 2 * (toReal (F32.add l m) - (toReal l + toReal m)))
    have a1 : |1 / 2 * (toReal (F32.add l m) - (toReal l + toReal m))| = 1 / 2 * |toReal (F32.add l m) - (toReal l + toReal m)| := by rw [abs_mul]; norm_num
    have a2 : |1 / 2 * (toReal l - Lr)| = 1 / 2 * |toReal l - Lr| := by rw [abs_mul]; norm_num
    have a3 : |1 / 2 * (toReal m - Mr)| = 1 / 2 * |toReal m - Mr| := by rw [abs_mul]; norm_num
    linarith
  · show |toReal s - specS _ _ _| ≤ _
    unfold specS mix2
    linarith

/-- non-vacuity: mid-grey (0.5, 0.5, 0.5) satisfies the hypotheses -/
example : PixOk ⟨0x3f000000, 0x3f000000, 0x3f000000⟩ ∧ Cond (toReal 0x3f000000) (toReal 0x3f000000) (toReal 0x3f000000) := by
  have h : decode 0x3f000000 = .fin false 8388608 (-24) := by decide +kernel
  have hv : toReal 0x3f000000 = 1 / 2 := by rw [toReal_of_decode _ _ _ _ h]; unfold valR; norm_num
  refine ⟨⟨⟨_, _, _, h⟩, ⟨_, _, _, h⟩, ⟨_, _, _, h⟩, ?_, ?_, ?_⟩, Or.inl ?_⟩ <;> rw [hv] <;> norm_num

/-- **C04 at the API level**: `Xyb::from(LinearRgb)` keeps width, height and pixel order, and every pixel that meets the
precondition is within 2e-6 of the opsin definition, for images of any size -/
theorem api_xyb (B : Build) (hB : B.fastmath = true) (img : Api.FImg) :
    (Api.linearToXyb B img).w = img.w ∧ (Api.linearToXyb B img).h = img.h ∧ (Api.linearToXyb B img).data.size = img.data.size ∧
    ∀ i (hi : i < img.data.size), PixOk img.data[i] → Cond (toReal img.data[i].x) (toReal img.data[i].y) (toReal img.data[i].z) →
      let o := (Api.linearToXyb B img).data[i]!
      |toReal o.x - specX (toReal img.data[i].x) (toReal img.data[i].y) (toReal img.data[i].z)| ≤ 2 / 1000000 ∧
      |toReal o.y - specY (toReal img.data[i].x) (toReal img.data[i].y) (toReal img.data[i].z)| ≤ 2 / 1000000 ∧
      |toReal o.z - specS (toReal img.data[i].x) (toReal img.data[i].y) (toReal img.data[i].z)| ≤ 2 / 1000000 := by
  refine ⟨rfl, rfl, by simp [Api.linearToXyb], ?_⟩
  intro i hi hp hc o
  have ho : o = lrgbToXyb B img.data[i] := by simp [o, Api.linearToXyb, hi]
  rw [ho]
  exact (xyb_close B hB img.data[i] hp hc).2

end C04
