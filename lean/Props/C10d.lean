import Props.C10b
import Props.C03e
import Props.C03i
/-! C10, HLG (ARIB STD-B67 / BT.2100): gamma -> linear -> gamma returns `x` within 2.5e-4 for EVERY binary32 of `[0, 1]`
(fastmath build, both FMA modes, kernel-only; the logarithmic branch of the second stage calls libm `ln`, a parameter of the
model, under the stated hypothesis). Below 1/2 the first stage is `x²/3` with a RELATIVE error of 1e-6 and the second stage
takes the square root; above 1/2 the first stage is within 3e-5 (absolute) of `(exp((x-c)/a) + b)/12` and the logarithm of the
second stage has slope at most `a * 12 / 0.71 ≈ 3`; at the junction either branch may be taken on either side. -/
namespace C10
open F32 MathM TransferM Real ExpPoly Horner C03

/-- square-root branch: `s² = 3 r` with `r` within relative 1e-6 (+1e-40) of `X²/3` -/
theorem sqrt_rt (X r s : ℝ) (hX0 : 0 ≤ X) (hX1 : X ≤ 1) (hs0 : 0 ≤ s) (hs : s ^ 2 = 3 * r)
    (hr : |r - X ^ 2 / 3| ≤ (1 / 10 ^ 6) * X ^ 2 + 1 / 10 ^ 40) : |s - X| ≤ 3 / 10 ^ 6 := by
  obtain ⟨r1, r2⟩ := abs_le.mp hr
  have hs2a : s ^ 2 ≤ X ^ 2 * (1 + 3 / 10 ^ 6) + 3 / 10 ^ 40 := by rw [hs]; linarith
  have hs2b : X ^ 2 * (1 - 3 / 10 ^ 6) - 3 / 10 ^ 40 ≤ s ^ 2 := by rw [hs]; linarith
  rw [abs_le]
  constructor
  · -- s ≥ X - 3e-6
    by_contra hc
    have hlt := not_le.mp hc
    have hXbig : 3 / 10 ^ 6 < X := by linarith
    have : s ^ 2 < (X - 3 / 10 ^ 6) ^ 2 := by nlinarith
    nlinarith
  · by_contra hc
    have hlt := not_le.mp hc
    have : (X + 3 / 10 ^ 6) ^ 2 < s ^ 2 := by nlinarith
    nlinarith

/-- `a ln(0.71533108) + c` is 1/2 within 1e-7 -/
theorem junction_half : |(0.17883277:ℝ) * Real.log 0.71533108 + 0.55991073 - 1 / 2| ≤ 1 / 10 ^ 7 := by
  obtain ⟨j1, j2⟩ := log_junction
  rw [abs_le]; constructor <;> nlinarith

/-- the exponential of the upper branch: `0.7153 ≤ E ≤ 11.83` for `1/2 ≤ X ≤ 1` -/
theorem hlg_E_range (X : ℝ) (hX0 : 1 / 2 ≤ X) (hX1 : X ≤ 1) :
    0.71533 ≤ Real.exp ((X - 0.55991073) / 0.17883277) ∧ Real.exp ((X - 0.55991073) / 0.17883277) ≤ 11.83 := by
  set d := (X - 0.55991073) / 0.17883277 with hd
  have hdlo : (-33501 / 100000 : ℝ) ≤ d := by rw [hd, le_div_iff₀ (by norm_num)]; linarith
  have hdhi : d ≤ 2 + 47 / 100 := by rw [hd, div_le_iff₀ (by norm_num)]; linarith
  obtain ⟨j1, _⟩ := log_junction
  constructor
  · -- exp d ≥ exp(-0.33501) ≥ 0.71533: from ln(0.71533108) ≥ -0.33501 … use monotonicity the other way
    have h1 : Real.exp (-33501 / 100000 : ℝ) ≤ Real.exp d := Real.exp_le_exp.mpr hdlo
    have hb := Real.exp_bound (x := (-33501 / 100000 : ℝ)) (by rw [abs_le]; constructor <;> norm_num) (n := 8) (by norm_num)
    norm_num [Finset.sum_range_succ, Nat.factorial] at hb
    obtain ⟨h2, _⟩ := abs_le.mp hb
    norm_num at h2 ⊢
    linarith
  · have h1 : Real.exp d ≤ Real.exp (2 + 47 / 100 : ℝ) := Real.exp_le_exp.mpr hdhi
    have e1 : Real.exp (2 + 47 / 100 : ℝ) = Real.exp 1 ^ (2:ℕ) * Real.exp (47 / 100) := by
      rw [← Real.exp_nat_mul, ← Real.exp_add]; norm_num
    have h3 := Real.exp_one_lt_d9
    have h4 : Real.exp (47 / 100 : ℝ) ≤ 1.601 := by
      have hb' := Real.exp_bound' (x := 47 / 100) (by norm_num) (by norm_num) (n := 4) (by norm_num)
      norm_num [Finset.sum_range_succ, Nat.factorial] at hb'
      linarith
    have hp : 0 < Real.exp 1 := Real.exp_pos 1
    have hq' : 0 < Real.exp (47 / 100 : ℝ) := Real.exp_pos _
    rw [e1] at h1
    have : Real.exp 1 ^ 2 ≤ 2.7182818286 ^ 2 := pow_le_pow_left₀ hp.le h3.le 2
    nlinarith

/-- case A (X ≤ 1/2), second stage on its logarithmic branch (only possible at the junction) -/
theorem hlg_rt_A_log (X r : ℝ) (hX0 : 0 ≤ X) (hX1 : X ≤ 1 / 2) (hr12 : 1 / 12 < r)
    (hr : |r - X ^ 2 / 3| ≤ (1 / 10 ^ 6) * X ^ 2 + 1 / 10 ^ 40) :
    |(0.17883277:ℝ) * Real.log (12 * r - 0.28466892) + 0.55991073 - X| ≤ 3 / 10 ^ 6 := by
  obtain ⟨r1, r2⟩ := abs_le.mp hr
  have hXlo : 499999 / 1000000 ≤ X := by
    by_contra hc
    have hlt := not_le.mp hc
    have : X ^ 2 ≤ (499999 / 1000000 : ℝ) ^ 2 := by nlinarith
    nlinarith
  set y := 12 * r - 0.28466892 with hy
  have hy0 : (0.71533108:ℝ) ≤ y := by rw [hy]; linarith
  have hy1 : y ≤ 0.71533108 + 32 / 10 ^ 7 := by rw [hy]; nlinarith
  have hlip := log_lipschitz y 0.71533108 (7 / 10) (by norm_num) (by linarith) (by norm_num)
  have hyd : |y - 0.71533108| ≤ 32 / 10 ^ 7 := by rw [abs_le]; constructor <;> linarith
  have hlog : |Real.log y - Real.log 0.71533108| ≤ 46 / 10 ^ 7 := by
    refine le_trans hlip ?_
    rw [div_le_iff₀ (by norm_num)]; linarith
  obtain ⟨l1, l2⟩ := abs_le.mp hlog
  obtain ⟨q1, q2⟩ := abs_le.mp junction_half
  rw [abs_le]; constructor <;> nlinarith

/-- case B (X > 1/2), second stage on its logarithmic branch -/
theorem hlg_rt_B_log (X r : ℝ) (hX0 : 1 / 2 ≤ X) (hX1 : X ≤ 1) (hr12 : 1 / 12 < r)
    (hr : |r - (Real.exp ((X - 0.55991073) / 0.17883277) + 0.28466892) / 12| ≤ 3 / 10 ^ 5) :
    |(0.17883277:ℝ) * Real.log (12 * r - 0.28466892) + 0.55991073 - X| ≤ 10 / 10 ^ 5 := by
  obtain ⟨E1, E2⟩ := hlg_E_range X hX0 hX1
  set d := (X - 0.55991073) / 0.17883277 with hd
  set E := Real.exp d with hE
  obtain ⟨r1, r2⟩ := abs_le.mp hr
  set y := 12 * r - 0.28466892 with hy
  have hyE : |y - E| ≤ 36 / 10 ^ 5 := by rw [hy, abs_le]; constructor <;> linarith
  obtain ⟨y1, y2⟩ := abs_le.mp hyE
  have hlip := log_lipschitz y E (71 / 100) (by norm_num) (by linarith) (by linarith)
  have hlogE : Real.log E = d := Real.log_exp d
  rw [hlogE] at hlip
  have hl : |Real.log y - d| ≤ 51 / 10 ^ 5 := by
    refine le_trans hlip ?_
    rw [div_le_iff₀ (by norm_num)]; linarith
  have hX : X = 0.17883277 * d + 0.55991073 := by rw [hd]; field_simp; ring
  obtain ⟨l1, l2⟩ := abs_le.mp hl
  rw [abs_le]; constructor <;> nlinarith

/-- case B (X > 1/2), second stage on its square-root branch (only possible just above the junction) -/
theorem hlg_rt_B_sqrt (X r s : ℝ) (hX0 : 1 / 2 < X) (hX1 : X ≤ 1) (hr12 : r ≤ 1 / 12) (hs0 : 0 ≤ s) (hs : s ^ 2 = 3 * r)
    (hr : |r - (Real.exp ((X - 0.55991073) / 0.17883277) + 0.28466892) / 12| ≤ 3 / 10 ^ 5) : |s - X| ≤ 19 / 10 ^ 5 := by
  obtain ⟨E1, E2⟩ := hlg_E_range X hX0.le hX1
  set d := (X - 0.55991073) / 0.17883277 with hd
  set E := Real.exp d with hE
  obtain ⟨r1, r2⟩ := abs_le.mp hr
  obtain ⟨_, j2⟩ := log_junction
  -- s lies in [0.4999, 0.5]
  have hs_hi : s ≤ 1 / 2 := by
    by_contra hc
    have := not_le.mp hc
    nlinarith
  have hs_lo : 499909 / 1000000 ≤ s := by
    by_contra hc
    have := not_le.mp hc
    nlinarith
  -- d = ln E ≤ ln y0 + (E - y0)/y0
  have hEhi : E ≤ 0.71569108 := by linarith
  have hEpos : 0 < E := Real.exp_pos d
  have hdlog : d = Real.log E := (Real.log_exp d).symm
  have hq : Real.log (E / 0.71533108) ≤ E / 0.71533108 - 1 := Real.log_le_sub_one_of_pos (by positivity)
  rw [Real.log_div hEpos.ne' (by norm_num)] at hq
  have hq2 : E / 0.71533108 - 1 ≤ 504 / 10 ^ 6 := by
    rw [sub_le_iff_le_add, div_le_iff₀ (by norm_num)]; linarith
  have hdhi : d ≤ -3345056 / 10000000 := by rw [hdlog]; linarith
  have hX : X = 0.17883277 * d + 0.55991073 := by rw [hd]; field_simp; ring
  have hXhi : X ≤ 500091 / 1000000 := by linarith
  rw [abs_le]; constructor <;> linarith

/-- real-arithmetic core of the HLG round trip -/
theorem hlg_rt_real (X r g : ℝ) (hX0 : 0 ≤ X) (hX1 : X ≤ 1) (hr0 : 0 ≤ r)
    (hbr : (X ≤ 1 / 2 ∧ |r - X ^ 2 / 3| ≤ (1 / 10 ^ 6) * X ^ 2 + 1 / 10 ^ 40) ∨
      (1 / 2 < X ∧ |r - (Real.exp ((X - 0.55991073) / 0.17883277) + 0.28466892) / 12| ≤ 3 / 10 ^ 5))
    (hg : |g - hlgSpec r| ≤ 1 / 10 ^ 5) : |g - X| ≤ 20 / 10 ^ 5 := by
  have key : |hlgSpec r - X| ≤ 19 / 10 ^ 5 := by
    unfold hlgSpec
    by_cases h12 : r ≤ 1 / 12
    · rw [if_pos h12]
      have hs0 : 0 ≤ Real.sqrt (3 * r) := Real.sqrt_nonneg _
      have hs : Real.sqrt (3 * r) ^ 2 = 3 * r := Real.sq_sqrt (by linarith)
      rcases hbr with ⟨hA, hr⟩ | ⟨hB, hr⟩
      · exact le_trans (sqrt_rt X r _ hX0 hX1 hs0 hs hr) (by norm_num)
      · exact hlg_rt_B_sqrt X r _ hB hX1 h12 hs0 hs hr
    · rw [if_neg h12]
      rcases hbr with ⟨hA, hr⟩ | ⟨hB, hr⟩
      · exact le_trans (hlg_rt_A_log X r hX0 hA (not_le.mp h12) hr) (by norm_num)
      · exact le_trans (hlg_rt_B_log X r hB.le hX1 (not_le.mp h12) hr) (by norm_num)
  have e : g - X = (g - hlgSpec r) + (hlgSpec r - X) := by ring
  rw [e]
  exact le_trans (abs_add_le _ _) (by linarith)

/-- the low branch `x² * (1/3)` in binary32: non-negative and within RELATIVE 1e-6 (plus 1e-40) of `X²/3` -/
theorem hlg_low_rel (x' t : Nat) (hx : Finite x') (ht : Finite t ∧ |toReal t - 1 / 3| ≤ 1 / 10 ^ 7) (h0 : 0 ≤ toReal x') (h1 : toReal x' ≤ 1 / 2) :
    Finite (mul (mul x' x') t) ∧ 0 ≤ toReal (mul (mul x' x') t) ∧
      |toReal (mul (mul x' x') t) - (toReal x') ^ 2 / 3| ≤ (1 / 10 ^ 6) * (toReal x') ^ 2 + 1 / 10 ^ 40 := by
  have hu' : u = 1 / 16777216 := u_val
  have he' : eta ≤ 1 / 10 ^ 40 := eta_le
  have hep := eta_pos
  set X := toReal x' with hX
  obtain ⟨t1, t2⟩ := abs_le.mp ht.2
  set T := toReal t with hT
  have hxa : |toReal x'| ≤ X := by rw [← hX, abs_of_nonneg h0]
  obtain ⟨hpb, hpe⟩ := mul_bnd x' x' X X ⟨hx, hxa⟩ ⟨hx, hxa⟩ (fit_small _ (by nlinarith))
  rw [← hX] at hpe
  set p := toReal (mul x' x') with hp
  have hp0 : 0 ≤ p := by
    have := mul_ge x' x' 0 hx hx c_zero.1 (by rw [← hX]; apply fit_small; rw [abs_of_nonneg (by nlinarith)]; nlinarith)
      (by rw [c_zero.2]; apply fit_small; norm_num) (by rw [c_zero.2, ← hX]; nlinarith)
    rw [c_zero.2] at this; exact this
  have hTabs : |toReal t| ≤ 1 / 3 + 1 / 10 ^ 7 := by rw [← hT, abs_le]; constructor <;> linarith
  obtain ⟨hrb, hre⟩ := mul_bnd (mul x' x') t (X * X * (1 + u) + eta) (1 / 3 + 1 / 10 ^ 7) hpb ⟨ht.1, hTabs⟩
    (fit_small _ (by rw [hu']; nlinarith))
  rw [← hp, ← hT] at hre
  have hr0 : 0 ≤ toReal (mul (mul x' x') t) := by
    have := mul_ge (mul x' x') t 0 hpb.1 ht.1 c_zero.1 (by rw [← hp, ← hT]; apply fit_small; rw [abs_of_nonneg (by nlinarith)]; rw [hu'] at hpe; nlinarith [(abs_le.mp hpe).2])
      (by rw [c_zero.2]; apply fit_small; norm_num) (by rw [c_zero.2, ← hp, ← hT]; nlinarith)
    rw [c_zero.2] at this; exact this
  refine ⟨hrb.1, hr0, ?_⟩
  have he44 : eta ≤ 1 / 10 ^ 44 := by
    unfold eta
    have h1 : (2:ℝ)^(-150:ℤ) ≤ (2:ℝ)^(-147:ℤ) := zpow_le_zpow_right₀ (by norm_num) (by norm_num)
    have h2 : (2:ℝ)^(-147:ℤ) = 1 / (2:ℝ)^(147:ℕ) := by rw [zpow_neg, one_div]; norm_num
    have h3 : (10:ℝ)^44 ≤ (2:ℝ)^(147:ℕ) := by norm_num
    rw [h2] at h1
    refine le_trans h1 ?_
    exact one_div_le_one_div_of_le (by positivity) h3
  set W := X * X with hW
  have hW2 : W ≤ 1 / 4 := by rw [hW]; nlinarith
  have hW0 : 0 ≤ W := by rw [hW]; nlinarith
  set R := toReal (mul (mul x' x') t) with hR
  have hTabs' : |T| ≤ 1 / 3 + 1 / 10 ^ 7 := hTabs
  have hA : |(p - W) * T| ≤ (u * W + eta) * (1 / 3 + 1 / 10 ^ 7) := by
    rw [abs_mul]; exact mul_le_mul hpe hTabs' (abs_nonneg _) (by rw [hu']; positivity)
  have hB : |W * (T - 1 / 3)| ≤ W * (1 / 10 ^ 7) := by
    rw [abs_mul, abs_of_nonneg hW0]; exact mul_le_mul_of_nonneg_left ht.2 hW0
  have e3 : R - X ^ 2 / 3 = (R - p * T) + (p - W) * T + W * (T - 1 / 3) := by rw [hW]; ring
  rw [e3]
  refine le_trans (abs_add_three _ _ _) ?_
  have e2 : X ^ 2 = W := by rw [hW]; ring
  rw [e2]
  rw [hu'] at hre hA
  have hc1 : (1:ℝ) / 16777216 * ((W * (1 + 1 / 16777216) + eta) * (1 / 3 + 1 / 10 ^ 7)) ≤ (3 / 10 ^ 8) * W + eta := by nlinarith
  have hc2 : ((1:ℝ) / 16777216 * W + eta) * (1 / 3 + 1 / 10 ^ 7) ≤ (3 / 10 ^ 8) * W + eta := by nlinarith
  linarith

/-- HLG gamma -> linear with what the round trip needs: sign, range and a branch-wise bound -/
theorem hlg_lin_rt (B : Build) (ho : ExpOracle B) (x : Nat) (hxw : WF x) (hx : Finite x) (h0 : 0 ≤ toReal x) (h1 : toReal x ≤ 1) :
    ∃ r, arib_b67_inverse_oetf B x = .ok r ∧ Finite r ∧ 0 ≤ toReal r ∧ toReal r ≤ 101 / 100 ∧
      ((toReal x ≤ 1 / 2 ∧ |toReal r - (toReal x) ^ 2 / 3| ≤ (1 / 10 ^ 6) * (toReal x) ^ 2 + 1 / 10 ^ 40) ∨
       (1 / 2 < toReal x ∧ |toReal r - (Real.exp ((toReal x - 0.55991073) / 0.17883277) + 0.28466892) / 12| ≤ 3 / 10 ^ 5)) := by
  by_cases hXle : toReal x ≤ 1 / 2
  · obtain ⟨z1, z2, h1c, h2c, t1, t2, _⟩ := cert_hlg
    obtain ⟨fz, vz⟩ := zero_of _ z1 z2
    obtain ⟨hm1, hm2⟩ := max_val x C.arib_b67_inverse_oetf_f0 hx fz
    have hxf : Finite (F32.max x C.arib_b67_inverse_oetf_f0) := by rcases hm1 with e | e <;> rw [e] <;> assumption
    have hxv : toReal (F32.max x C.arib_b67_inverse_oetf_f0) = toReal x := by rw [hm2, vz]; exact max_eq_left h0
    obtain ⟨fh, vh⟩ := val_of _ _ h1c h2c
    unfold arib_b67_inverse_oetf
    dsimp only
    have hle : le (F32.max x C.arib_b67_inverse_oetf_f0) C.arib_b67_inverse_oetf_f1 = true := by
      rw [le_iff _ _ hxf fh, hxv, vh]; push_cast; linarith
    rw [if_pos hle]
    obtain ⟨ft, vt⟩ := near_of' _ _ _ t1 t2
    obtain ⟨hr1, hr2, hr3⟩ := hlg_low_rel _ _ hxf ⟨ft, by push_cast at vt; exact vt⟩ (by rw [hxv]; exact h0) (by rw [hxv]; exact hXle)
    rw [hxv] at hr3
    refine ⟨_, rfl, hr1, hr2, ?_, Or.inl ⟨hXle, hr3⟩⟩
    obtain ⟨_, q2⟩ := abs_le.mp hr3
    nlinarith
  · have hgt := not_le.mp hXle
    obtain ⟨r, hr1, hr2, hr3⟩ := hlg_to_linear_o B ho x hxw hx h0 h1
    unfold hlgInvSpec at hr3
    rw [if_neg hXle] at hr3
    obtain ⟨E1, E2⟩ := hlg_E_range (toReal x) hgt.le h1
    obtain ⟨q1, q2⟩ := abs_le.mp hr3
    refine ⟨r, hr1, hr2, by linarith, by linarith, Or.inr ⟨hgt, hr3⟩⟩

/-- HLG round trip for any build meeting the exp oracle and the libm `ln` hypothesis -/
theorem hlg_roundtrip_o (B : Build) (ho : ExpOracle B) (hL : LibmLnAccurate B.libm) :
    RoundTripWithin (arib_b67_inverse_oetf B) (arib_b67_oetf B) := by
  intro x hxw hx h0 h1
  obtain ⟨r1, hr1, hf1, p0, p1, hbr⟩ := hlg_lin_rt B ho x hxw hx h0 h1
  obtain ⟨r2, hr2, hf2, he2⟩ := hlg_to_gamma_ext B hL r1 hf1 p0 p1
  refine ⟨r1, r2, hr1, hr2, hf2, ?_⟩
  exact lt_of_le_of_lt (hlg_rt_real _ _ _ h0 h1 p0 hbr he2) (by norm_num)

/-- **C10, HLG** (fastmath build; libm `ln` within 1e-6 on `[1/2, 12]` as hypothesis): gamma -> linear -> gamma returns every
binary32 of `[0, 1]` within 2.5e-4 (proved 2e-4), through the dispatch tables -/
theorem hlg_roundtrip (B : Build) (hB : B.fastmath = true) (hL : LibmLnAccurate B.libm) :
    ∃ f g, toLinearFn B .HybridLogGamma = .ok f ∧ toGammaFn B .HybridLogGamma = .ok g ∧ RoundTripWithin f g :=
  ⟨_, _, rfl, rfl, hlg_roundtrip_o B (fast_oracle_exp B hB) hL⟩

end C10
