import Props.C13
import Props.C03j
/-! C13, finiteness clause for the transfer stage: for 13 of the 14 characteristics, every finite component in `[0, 1]` is
mapped to a finite value by `to_linear` and by `to_gamma` (corollary of the C03 accuracy theorems; the linear -> gamma direction
of Log100/316 and HLG under the libm hypotheses, because `log10` / `ln` are parameters of the model). PQ is not covered. -/
namespace C13
open F32 MathM TransferM C03

theorem curves_finite (B : Build) (hB : B.fastmath = true) (hL10 : LibmLog10Accurate B.libm) (hLn : LibmLnAccurate B.libm)
    (t : TC) (ht : t ∈ thirteen) :
    (∃ f, toLinearFn B t = .ok f ∧ ∀ x, WF x → Finite x → 0 ≤ toReal x → toReal x ≤ 1 → ∃ r, f x = .ok r ∧ Finite r) ∧
    (∃ g, toGammaFn B t = .ok g ∧ ∀ x, WF x → Finite x → 0 ≤ toReal x → toReal x ≤ 1 → ∃ r, g x = .ok r ∧ Finite r) := by
  obtain ⟨⟨f, hf, hfw⟩, ⟨g, hg, hgw⟩⟩ := C03.accuracy B hB hL10 hLn t ht
  refine ⟨⟨f, hf, ?_⟩, ⟨g, hg, ?_⟩⟩
  · intro x hxw hx h0 h1
    obtain ⟨r, h2, h3, _⟩ := hfw x hxw hx h0 h1
    exact ⟨r, h2, h3⟩
  · intro x hxw hx h0 h1
    obtain ⟨r, h2, h3, _⟩ := hgw x hxw hx h0 h1
    exact ⟨r, h2, h3⟩

end C13
