import Props.C03e
/-! C03, Log100 / Log316, linear -> gamma direction: `1 + log10(x) / k` above the threshold, 0 below. The decimal logarithm is
a libm call (`f32::log10`) in every build, i.e. a PARAMETER of the model; the theorem is stated under the explicit hypothesis
that this parameter is within 1e-6 (absolute) of the real decimal logarithm on `[0.003, 1.001]` (glibc documents < 1 ulp). -/
namespace C03
open F32 MathM TransferM Real ExpPoly Horner

/-- the assumption on the libm parameter `log10` -/
def LibmLog10Accurate (lm : Libm) : Prop :=
  ∀ x : Nat, Finite x → 3 / 1000 ≤ toReal x → toReal x ≤ 1001 / 1000 →
    Finite (lm.log10 x) ∧ |toReal (lm.log10 x) - Real.logb 10 (toReal x)| ≤ 1 / 10 ^ 6

/-- the logarithmic OETF of H.273: `1 + log10(x)/k` for `x ≥ 10^-k`, else 0 -/
noncomputable def logSpec (k : ℝ) (X : ℝ) : ℝ := if X < (10:ℝ) ^ (-k) then 0 else 1 + Real.logb 10 X / k

theorem cert_logg :
    finiteB C.log100_oetf_f0 = true ∧ 99999 / 10 ^ 7 ≤ ratOf C.log100_oetf_f0 ∧ ratOf C.log100_oetf_f0 ≤ 1 / 100 ∧
    finiteB C.log100_oetf_f1 = true ∧ ratOf C.log100_oetf_f1 = 0 ∧
    finiteB C.log100_oetf_f2 = true ∧ ratOf C.log100_oetf_f2 = 1 ∧
    finiteB C.log100_oetf_f3 = true ∧ ratOf C.log100_oetf_f3 = 2 ∧
    finiteB C.log316_oetf_f0 = true ∧ 316227 / 10 ^ 8 ≤ ratOf C.log316_oetf_f0 ∧
      (ratOf C.log316_oetf_f0) ^ 2 ≤ 1 / 10 ^ 5 ∧ 1 / 10 ^ 5 ≤ (ratOf C.log316_oetf_f0 + 1 / 10 ^ 8) ^ 2 ∧
    finiteB C.log316_oetf_f1 = true ∧ ratOf C.log316_oetf_f1 = 0 ∧
    finiteB C.log316_oetf_f2 = true ∧ ratOf C.log316_oetf_f2 = 1 ∧
    finiteB C.log316_oetf_f3 = true ∧ ratOf C.log316_oetf_f3 = 5 / 2 := by
  decide +kernel

/-- `log10` just below a power of ten: if `T (1 - 1e-5) ≤ X ≤ T` then `log10 X ≥ log10 T - 1e-5` -/
theorem logb_near (T X : ℝ) (hT : 0 < T) (h1 : T * (1 - 1 / 10 ^ 5) ≤ X) (h2 : X ≤ T) :
    Real.logb 10 T - 1 / 10 ^ 5 ≤ Real.logb 10 X ∧ Real.logb 10 X ≤ Real.logb 10 T := by
  have hX : 0 < X := lt_of_lt_of_le (by nlinarith) h1
  constructor
  · -- logb X ≥ logb (T (1-ε)) = logb T + logb (1-ε), and logb(1-ε) ≥ -1e-5
    have hmono : Real.logb 10 (T * (1 - 1 / 10 ^ 5)) ≤ Real.logb 10 X := Real.logb_le_logb_of_le (by norm_num) (by nlinarith) h1
    rw [Real.logb_mul hT.ne' (by norm_num)] at hmono
    have hl : -(1 / 10 ^ 5 : ℝ) ≤ Real.logb 10 (1 - 1 / 10 ^ 5) := by
      rw [Real.le_logb_iff_rpow_le (by norm_num) (by norm_num)]
      -- 10^(-1e-5) ≤ 1 - 1e-5 : 10^(-y) = 1 / 10^y and 10^y ≥ 1 + y log 10 ≥ 1 + 2 y
      rw [Real.rpow_neg (by norm_num)]
      have h10 : (1:ℝ) + 2 * (1 / 10 ^ 5) ≤ (10:ℝ) ^ ((1:ℝ) / 10 ^ 5) := by
        rw [Real.rpow_def_of_pos (by norm_num)]
        have := Real.add_one_le_exp (Real.log 10 * (1 / 10 ^ 5))
        have hl10 : (2:ℝ) ≤ Real.log 10 := by
          have : Real.log 10 = Real.log 2 + Real.log 5 := by rw [← Real.log_mul (by norm_num) (by norm_num)]; norm_num
          have h2 := Real.log_two_gt_d9
          have h5 : Real.log 4 ≤ Real.log 5 := Real.log_le_log (by norm_num) (by norm_num)
          have h4 : Real.log 4 = 2 * Real.log 2 := by rw [show (4:ℝ) = 2 ^ (2:ℕ) by norm_num, Real.log_pow]; norm_num
          linarith
        nlinarith
      rw [inv_le_comm₀ (by positivity) (by norm_num)]
      refine le_trans ?_ h10
      rw [inv_le_iff_one_le_mul₀ (by norm_num)]; norm_num
    linarith
  · exact Real.logb_le_logb_of_le (by norm_num) hX h2

/-- real-arithmetic core: the computed value above the threshold -/
theorem logg_real (k X l d r lv : ℝ) (hk1 : 2 ≤ k) (hk2 : k ≤ 5 / 2) (hl : |lv - l| ≤ 1 / 10 ^ 6) (hll : -3 ≤ l) (hlu : l ≤ 1)
    (hd : |d - lv / k| ≤ 1 / 10 ^ 6) (hr : |r - (1 + d)| ≤ 1 / 10 ^ 6) : |r - (1 + l / k)| ≤ 3 / 10 ^ 6 := by
  have e : r - (1 + l / k) = (r - (1 + d)) + (d - lv / k) + (lv - l) / k := by field_simp; ring
  rw [e]
  refine le_trans (abs_add_three _ _ _) ?_
  have : |(lv - l) / k| ≤ 1 / 10 ^ 6 := by
    rw [abs_div, abs_of_pos (by linarith : (0:ℝ) < k), div_le_iff₀ (by linarith)]
    nlinarith [abs_nonneg (lv - l)]
  linarith

variable (B : Build) (hL : LibmLog10Accurate B.libm)
include hL

/-- one logarithmic OETF: `if x <= thr { 0 } else { 1 + log10(x) / k }` -/
theorem log_gamma_branch (thr zero one kc : Nat) (k : ℝ) (hk1 : 2 ≤ k) (hk2 : k ≤ 5 / 2)
    (hthr : Finite thr) (hT1 : (10:ℝ) ^ (-k) * (1 - 1 / 10 ^ 5) ≤ toReal thr) (hT2 : toReal thr ≤ (10:ℝ) ^ (-k)) (hT3 : 3 / 1000 ≤ toReal thr)
    (hz : Finite zero ∧ toReal zero = 0) (h1c : Finite one ∧ toReal one = 1) (hkc : Finite kc ∧ toReal kc = k)
    (x : Nat) (hx : Finite x) (h0 : 0 ≤ toReal x) (h1 : toReal x ≤ 1001 / 1000) :
    Finite (if le x thr then zero else add one (div (B.libm.log10 x) kc)) ∧
    |toReal (if le x thr then zero else add one (div (B.libm.log10 x) kc)) - logSpec k (toReal x)| ≤ 2 / 10 ^ 5 := by
  have hu' : u = 1 / 16777216 := u_val
  have he' : eta ≤ 1 / 10 ^ 40 := eta_le
  have hud := ud_le
  have hudpos := ud_pos
  set X := toReal x with hX
  have hTpos : 0 < (10:ℝ) ^ (-k) := Real.rpow_pos_of_pos (by norm_num) _
  have hlogT : Real.logb 10 ((10:ℝ) ^ (-k)) = -k := Real.logb_rpow (by norm_num) (by norm_num)
  by_cases hle : le x thr = true
  · rw [if_pos hle]
    have hXle : X ≤ toReal thr := (le_iff x thr hx hthr).mp hle
    refine ⟨hz.1, ?_⟩
    rw [hz.2]
    unfold logSpec
    by_cases hs : X < (10:ℝ) ^ (-k)
    · rw [if_pos hs]; norm_num
    · -- X = threshold value region: 10^-k ≤ X ≤ thr ≤ 10^-k, so X = 10^-k and the spec is 1 + (-k)/k = 0
      rw [if_neg hs]
      have hXe : X = (10:ℝ) ^ (-k) := le_antisymm (le_trans hXle hT2) (not_lt.mp hs)
      rw [hXe, hlogT]
      have : (1:ℝ) + -k / k = 0 := by field_simp; ring
      rw [this]; norm_num
  · rw [if_neg hle]
    have hXgt : toReal thr < X := by
      by_contra hc
      exact hle ((le_iff x thr hx hthr).mpr (not_lt.mp hc))
    have hXpos : 0 < X := by linarith
    obtain ⟨hlf, hle'⟩ := hL x hx (by linarith) h1
    set l := Real.logb 10 X with hl
    have hlu : l ≤ 1 := by
      have h10 : Real.logb 10 X ≤ Real.logb 10 10 := Real.logb_le_logb_of_le (by norm_num) hXpos (by linarith)
      rw [Real.logb_self_eq_one (by norm_num)] at h10; exact h10
    have hll : -3 ≤ l := by
      rw [hl, Real.le_logb_iff_rpow_le (by norm_num) hXpos]
      have : (10:ℝ) ^ (-3:ℝ) = 1 / 1000 := by rw [show (-3:ℝ) = ((-3:ℤ):ℝ) by norm_num, Real.rpow_intCast]; norm_num
      rw [this]; linarith
    set lv := toReal (B.libm.log10 x) with hlv
    have hlvabs : |lv| ≤ 4 := by
      have := abs_sub_abs_le_abs_sub lv l
      have : |l| ≤ 3 := by rw [abs_le]; constructor <;> linarith
      linarith
    have hkabs : (2:ℝ) ≤ |toReal kc| := by rw [hkc.2, abs_of_pos (by linarith)]; exact hk1
    obtain ⟨hdb, hde⟩ := div_bnd (B.libm.log10 x) kc 4 2 ⟨hlf, hlvabs⟩ hkc.1 (by norm_num) hkabs
      (le_trans (by norm_num : (4:ℝ) / 2 ≤ 100) (by norm_num))
    rw [hkc.2] at hde
    set d := toReal (div (B.libm.log10 x) kc) with hd
    have hd6 : |d - lv / k| ≤ 1 / 10 ^ 6 := by
      refine le_trans hde ?_
      have : ud * (4 / 2) ≤ (1 / 10 ^ 7) * (4 / 2) := mul_le_mul_of_nonneg_right hud (by norm_num)
      linarith
    have hdabs : |d| ≤ 3 := by refine le_trans hdb.2 ?_; nlinarith
    have h1abs : |toReal one| ≤ 1 := by rw [h1c.2]; norm_num
    obtain ⟨hrb, hre⟩ := add_bnd one (div (B.libm.log10 x) kc) 1 3 ⟨h1c.1, h1abs⟩ ⟨hdb.1, hdabs⟩ (fit_small _ (by norm_num))
    rw [h1c.2] at hre
    have hr6 : |toReal (add one (div (B.libm.log10 x) kc)) - (1 + d)| ≤ 1 / 10 ^ 6 := by
      refine le_trans hre ?_; rw [hu']; norm_num; linarith
    refine ⟨hrb.1, ?_⟩
    have hcore := logg_real k X l d _ lv hk1 hk2 hle' hll hlu hd6 hr6
    unfold logSpec
    by_cases hs : X < (10:ℝ) ^ (-k)
    · -- between the float threshold and the exact one: the formula is within 1e-5 of 0
      rw [if_pos hs]
      obtain ⟨n1, n2⟩ := logb_near ((10:ℝ) ^ (-k)) X hTpos (by linarith) hs.le
      rw [hlogT] at n1 n2
      have hq : |1 + l / k| ≤ 1 / 10 ^ 5 := by
        have hkpos : (0:ℝ) < k := by linarith
        have e : 1 + l / k = (k + l) / k := by field_simp
        rw [e, abs_div, abs_of_pos hkpos, div_le_iff₀ hkpos, abs_le]
        constructor <;> nlinarith
      rw [sub_zero]
      have := abs_sub_abs_le_abs_sub (toReal (add one (div (B.libm.log10 x) kc))) (1 + l / k)
      have h3 : |toReal (add one (div (B.libm.log10 x) kc))| ≤ 2 / 10 ^ 5 := by linarith
      exact h3
    · rw [if_neg hs]
      exact le_trans hcore (by norm_num)


/-- inputs up to 1.001 (used by the round trip, where the first stage may land just above 1) -/
theorem log100_to_gamma_ext (x : Nat) (hx : Finite x) (h0 : 0 ≤ toReal x) (h1 : toReal x ≤ 1001 / 1000) :
    ∃ r, log100_oetf B x = .ok r ∧ Finite r ∧ |toReal r - logSpec 2 (toReal x)| ≤ 2 / 10 ^ 5 := by
  obtain ⟨a1, a2, a3, b1, b2, c1, c2, d1, d2, _⟩ := cert_logg
  obtain ⟨ft, vt⟩ := Exp2.rat_val _ a1
  have e2 : (10:ℝ) ^ (-(2:ℝ)) = 1 / 100 := by
    rw [show (-(2:ℝ)) = ((-2:ℤ):ℝ) by norm_num, Real.rpow_intCast]; norm_num
  have hlo : (99999:ℝ) / 10 ^ 7 ≤ toReal C.log100_oetf_f0 := by rw [vt]; have := (Rat.cast_le (K := ℝ)).mpr a2; push_cast at this; exact this
  have hhi : toReal C.log100_oetf_f0 ≤ 1 / 100 := by rw [vt]; have := (Rat.cast_le (K := ℝ)).mpr a3; push_cast at this; exact this
  obtain ⟨hf, he⟩ := log_gamma_branch B hL C.log100_oetf_f0 C.log100_oetf_f1 C.log100_oetf_f2 C.log100_oetf_f3 2 (by norm_num) (by norm_num)
    ft (by rw [e2]; linarith) (by rw [e2]; exact hhi) (by linarith) (zero_of _ b1 b2)
    ⟨(val_of _ _ c1 c2).1, by rw [(val_of _ _ c1 c2).2]; norm_num⟩ ⟨(val_of _ _ d1 d2).1, by rw [(val_of _ _ d1 d2).2]; norm_num⟩ x hx h0 h1
  exact ⟨_, rfl, hf, he⟩

theorem log100_to_gamma_b : CurveWithinB (log100_oetf B) (logSpec 2) (2 / 10 ^ 5) :=
  fun x _ hx h0 h1 => log100_to_gamma_ext B hL x hx h0 (by linarith)

theorem log316_to_gamma_ext (x : Nat) (hx : Finite x) (h0 : 0 ≤ toReal x) (h1 : toReal x ≤ 1001 / 1000) :
    ∃ r, log316_oetf B x = .ok r ∧ Finite r ∧ |toReal r - logSpec (5 / 2) (toReal x)| ≤ 2 / 10 ^ 5 := by
  obtain ⟨_, _, _, _, _, _, _, _, _, a1, a2, a3, a4, b1, b2, c1, c2, d1, d2⟩ := cert_logg
  obtain ⟨ft, vt⟩ := Exp2.rat_val _ a1
  set c := toReal C.log316_oetf_f0 with hc
  set s := (10:ℝ) ^ (-(5 / 2 : ℝ)) with hs
  have hspos : 0 < s := Real.rpow_pos_of_pos (by norm_num) _
  have hs2 : s ^ 2 = 1 / 10 ^ 5 := by
    rw [hs, ← Real.rpow_natCast, ← Real.rpow_mul (by norm_num)]
    rw [show (-(5 / 2 : ℝ) * ((2:ℕ):ℝ)) = ((-5:ℤ):ℝ) by norm_num, Real.rpow_intCast]; norm_num
  have hclo : (316227:ℝ) / 10 ^ 8 ≤ c := by rw [vt]; have := (Rat.cast_le (K := ℝ)).mpr a2; push_cast at this; exact this
  have h3 : c ^ 2 ≤ 1 / 10 ^ 5 := by rw [vt]; have := (Rat.cast_le (K := ℝ)).mpr a3; push_cast at this; exact this
  have h4 : 1 / 10 ^ 5 ≤ (c + 1 / 10 ^ 8) ^ 2 := by rw [vt]; have := (Rat.cast_le (K := ℝ)).mpr a4; push_cast at this; exact this
  have hcs : c ≤ s := (abs_le_of_sq_le_sq' (a := c) (b := s) (by rw [hs2]; exact h3) hspos.le).2
  have hsc : s ≤ c + 1 / 10 ^ 8 := (abs_le_of_sq_le_sq' (a := s) (b := c + 1 / 10 ^ 8) (by rw [hs2]; exact h4) (by linarith)).2
  obtain ⟨hf, he⟩ := log_gamma_branch B hL C.log316_oetf_f0 C.log316_oetf_f1 C.log316_oetf_f2 C.log316_oetf_f3 (5 / 2) (by norm_num) (by norm_num)
    ft (by nlinarith) hcs (by linarith) (zero_of _ b1 b2)
    ⟨(val_of _ _ c1 c2).1, by rw [(val_of _ _ c1 c2).2]; norm_num⟩ ⟨(val_of _ _ d1 d2).1, by rw [(val_of _ _ d1 d2).2]; norm_num⟩ x hx h0 h1
  exact ⟨_, rfl, hf, he⟩

theorem log316_to_gamma_b : CurveWithinB (log316_oetf B) (logSpec (5 / 2)) (2 / 10 ^ 5) :=
  fun x _ hx h0 h1 => log316_to_gamma_ext B hL x hx h0 (by linarith)

theorem log100_to_gamma : CurveWithinF (log100_oetf B) (logSpec 2) := by
  intro x hxw hx h0 h1
  obtain ⟨r, h2, h3, h4⟩ := log100_to_gamma_b B hL x hxw hx h0 h1
  exact ⟨r, h2, h3, lt_of_le_of_lt h4 (by norm_num)⟩

theorem log316_to_gamma : CurveWithinF (log316_oetf B) (logSpec (5 / 2)) := by
  intro x hxw hx h0 h1
  obtain ⟨r, h2, h3, h4⟩ := log316_to_gamma_b B hL x hxw hx h0 h1
  exact ⟨r, h2, h3, lt_of_le_of_lt h4 (by norm_num)⟩

/-- **C03, Log100 / Log316 linear -> gamma through the dispatch** (under the libm hypothesis) -/
theorem log_to_gamma_curves :
    (∃ g, toGammaFn B .Logarithmic100 = .ok g ∧ CurveWithinF g (logSpec 2)) ∧
    (∃ g, toGammaFn B .Logarithmic316 = .ok g ∧ CurveWithinF g (logSpec (5 / 2))) :=
  ⟨⟨_, rfl, log100_to_gamma B hL⟩, ⟨_, rfl, log316_to_gamma B hL⟩⟩

end C03
