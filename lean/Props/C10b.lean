import Props.C10
import Props.C03c
import Proofs.RoundTrip
/-! C10, power-law family: gamma -> linear -> gamma returns `x` within 2.5e-4 for EVERY binary32 of `[0, 1]`
(BT.1886 and its four aliases, BT.470M, BT.470BG; fastmath build, both FMA modes; kernel-only).
The two stages are `x^γ` and `v^(1/γ)`; the first stage's relative error is damped by `1/γ`, the second stage's error is
the full `powf` error when `x ≤ 0.89` (where it is scaled by `x`) and the small error of the well-approximated zone of
`exp2` when `x > 0.89`. -/
namespace C10
open F32 MathM TransferM Real ExpPoly Horner C03

/-- a finite float with a positive value has a clear sign bit -/
theorem pos_sign_clear (a : Nat) (haw : WF a) (ha : Finite a) (hpos : 0 < toReal a) : a < 2147483648 := by
  obtain ⟨n, m, e, hd⟩ := ha
  have hv := toReal_of_decode _ n m e hd
  obtain ⟨s, k, f, hs, hk, hf, rfl⟩ := unpack a haw
  by_contra hc
  have hs1 : s = 1 := by omega
  rw [decode_pack s k f hs hk hf] at hd
  subst hs1
  have hneg : n = true := by
    (repeat' split at hd) <;> simp_all
  rw [hv, hneg] at hpos
  unfold valR at hpos
  simp only [if_true] at hpos
  have : (0:ℝ) ≤ (m:ℝ) * (2:ℝ) ^ e := by positivity
  nlinarith

theorem two_m13 : (2:ℝ) ^ (-13:ℤ) ≤ 1221 / 10 ^ 7 := by norm_num
theorem two_m39 : (2:ℝ) ^ (-39:ℤ) ≤ 1 / 10 ^ 11 := by norm_num

/-- `X^3 ≤ 2^-39` forces `X ≤ 2^-13` -/
theorem cube_small (X : ℝ) (h0 : 0 ≤ X) (h : X ^ (3:ℝ) ≤ (2:ℝ) ^ (-39:ℤ)) : X ≤ (2:ℝ) ^ (-13:ℤ) := by
  by_contra hc
  have hlt := not_le.mp hc
  have hp : (0:ℝ) < (2:ℝ) ^ (-13:ℤ) := by positivity
  have h3 : ((2:ℝ) ^ (-13:ℤ)) ^ (3:ℝ) < X ^ (3:ℝ) := Real.rpow_lt_rpow hp.le hlt (by norm_num)
  have e : ((2:ℝ) ^ (-13:ℤ)) ^ (3:ℝ) = (2:ℝ) ^ (-39:ℤ) := by
    rw [show (3:ℝ) = ((3:ℕ):ℝ) by norm_num, Real.rpow_natCast, ← zpow_natCast, ← zpow_mul]; norm_num
  rw [e] at h3
  linarith

/-- `ρ1` and `κ` bounds shared by the regimes -/
theorem kappa_bound (Y1 Y2 : ℝ) (hY1b : Y1 ≤ 3) (hY2a : 35 / 100 ≤ Y2) (hY2b : Y2 ≤ 46 / 100) (hYY : |Y1 * Y2 - 1| ≤ 2 / 10 ^ 7) :
    (1002 / 1000) * Y2 * (1832 / 10 ^ 7 + (7914 / 10 ^ 9) * Y1) ≤ 9256 / 10 ^ 8 := by
  obtain ⟨yy1, yy2⟩ := abs_le.mp hYY
  have : (1002 / 1000) * Y2 * (1832 / 10 ^ 7 + 7914 / 10 ^ 9 * Y1)
      = (1002 / 1000) * (1832 / 10 ^ 7) * Y2 + (1002 / 1000) * (7914 / 10 ^ 9) * (Y1 * Y2) := by ring
  rw [this]; nlinarith

/-- regime `x ≤ 0.89`, both stages accurate -/
theorem rt_low (X Y1 Y2 r1 r2 : ℝ) (hX0 : 0 < X) (hX1 : X ≤ 89 / 100) (hY1a : 2 ≤ Y1) (hY1b : Y1 ≤ 3)
    (hY2a : 35 / 100 ≤ Y2) (hY2b : Y2 ≤ 46 / 100) (hYY : |Y1 * Y2 - 1| ≤ 2 / 10 ^ 7)
    (h1 : |r1 - X ^ Y1| ≤ (1832 / 10 ^ 7 + (7914 / 10 ^ 9) * Y1) * X ^ Y1)
    (h2 : |r2 - r1 ^ Y2| ≤ (1832 / 10 ^ 7 + (7914 / 10 ^ 9) * Y2) * r1 ^ Y2) : |r2 - X| < 25 / 10 ^ 5 := by
  have hκ := kappa_bound Y1 Y2 hY1b hY2a hY2b hYY
  have hρ1a : 0 ≤ 1832 / 10 ^ 7 + (7914 / 10 ^ 9) * Y1 := by positivity
  have hρ1b : 1832 / 10 ^ 7 + (7914 / 10 ^ 9) * Y1 ≤ 1 / 1000 := by nlinarith
  have hρ2b : 1832 / 10 ^ 7 + (7914 / 10 ^ 9) * Y2 ≤ 18685 / 10 ^ 8 := by nlinarith
  have := RoundTrip.rt_real X Y1 Y2 r1 r2 _ _ hX0 (by linarith) hY1a hY1b hY2a hY2b hYY hρ1a hρ1b h1
    (by positivity) (by linarith) h2
  refine lt_of_le_of_lt this ?_
  set κ := (1002 / 1000) * Y2 * (1832 / 10 ^ 7 + (7914 / 10 ^ 9) * Y1)
  set ρ2 := 1832 / 10 ^ 7 + (7914 / 10 ^ 9) * Y2
  have hκ0 : 0 ≤ κ := by positivity
  have hρ20 : 0 ≤ ρ2 := by positivity
  have hc : ρ2 * (1 + κ) + κ ≤ 27945 / 10 ^ 8 := by nlinarith
  have hc0 : 0 ≤ ρ2 * (1 + κ) + κ := by positivity
  nlinarith

/-- regime `x > 0.89`: the second stage has relative error `3.5e-5` -/
theorem rt_high (X Y1 Y2 r1 r2 : ℝ) (hX0 : 0 < X) (hX1 : X ≤ 1) (hY1a : 2 ≤ Y1) (hY1b : Y1 ≤ 3)
    (hY2a : 35 / 100 ≤ Y2) (hY2b : Y2 ≤ 46 / 100) (hYY : |Y1 * Y2 - 1| ≤ 2 / 10 ^ 7)
    (h1 : |r1 - X ^ Y1| ≤ (1832 / 10 ^ 7 + (7914 / 10 ^ 9) * Y1) * X ^ Y1)
    (h2 : |r2 - r1 ^ Y2| ≤ (35 / 10 ^ 6) * r1 ^ Y2) : |r2 - X| < 25 / 10 ^ 5 := by
  have hκ := kappa_bound Y1 Y2 hY1b hY2a hY2b hYY
  have hρ1a : 0 ≤ 1832 / 10 ^ 7 + (7914 / 10 ^ 9) * Y1 := by positivity
  have hρ1b : 1832 / 10 ^ 7 + (7914 / 10 ^ 9) * Y1 ≤ 1 / 1000 := by nlinarith
  have := RoundTrip.rt_real X Y1 Y2 r1 r2 _ (35 / 10 ^ 6) hX0 hX1 hY1a hY1b hY2a hY2b hYY hρ1a hρ1b h1
    (by norm_num) (by norm_num) h2
  refine lt_of_le_of_lt this ?_
  set κ := (1002 / 1000) * Y2 * (1832 / 10 ^ 7 + (7914 / 10 ^ 9) * Y1)
  have hκ0 : 0 ≤ κ := by positivity
  have hc : 35 / 10 ^ 6 * (1 + κ) + κ ≤ 1276 / 10 ^ 7 := by nlinarith
  have hc0 : 0 ≤ 35 / 10 ^ 6 * (1 + κ) + κ := by positivity
  nlinarith

/-- bounds on the first-stage result -/
theorem r1_bounds (X Y1 r1 : ℝ) (hX0 : 0 < X) (hX1 : X ≤ 1) (hY1a : 2 ≤ Y1) (hY1b : Y1 ≤ 3)
    (h1 : |r1 - X ^ Y1| ≤ (1832 / 10 ^ 7 + (7914 / 10 ^ 9) * Y1) * X ^ Y1) :
    0 < r1 ∧ r1 ≤ 1001 / 1000 ∧ (89 / 100 < X → 7 / 10 ≤ r1) := by
  have hvpos : 0 < X ^ Y1 := Real.rpow_pos_of_pos hX0 _
  have hv1 : X ^ Y1 ≤ 1 := Real.rpow_le_one hX0.le hX1 (by linarith)
  have hρ1b : 1832 / 10 ^ 7 + (7914 / 10 ^ 9) * Y1 ≤ 2070 / 10 ^ 7 := by nlinarith
  have hρ1a : 0 ≤ 1832 / 10 ^ 7 + (7914 / 10 ^ 9) * Y1 := by positivity
  obtain ⟨g1, g2⟩ := abs_le.mp h1
  refine ⟨by nlinarith, by nlinarith, ?_⟩
  intro hreg
  have hX3 : (89 / 100 : ℝ) ^ (3:ℝ) ≤ X ^ Y1 := by
    have a1 : (89 / 100 : ℝ) ^ (3:ℝ) ≤ X ^ (3:ℝ) := Real.rpow_le_rpow (by norm_num) hreg.le (by norm_num)
    have a2 : X ^ (3:ℝ) ≤ X ^ Y1 := Real.rpow_le_rpow_of_exponent_ge hX0 hX1 hY1b
    linarith
  have h893 : (89 / 100 : ℝ) ^ (3:ℝ) = 704969 / 1000000 := by
    rw [show (3:ℝ) = ((3:ℕ):ℝ) by norm_num, Real.rpow_natCast]; norm_num
  rw [h893] at hX3
  nlinarith

/-- first stage accurate, second stage "both tiny": then `x` itself is tiny -/
theorem rt_tiny2 (X Y1 Y2 r1 r2 : ℝ) (hX0 : 0 < X) (hX1 : X ≤ 1) (hY1a : 2 ≤ Y1) (hY1b : Y1 ≤ 3)
    (hY2a : 35 / 100 ≤ Y2) (hY2b : Y2 ≤ 46 / 100) (hYY : |Y1 * Y2 - 1| ≤ 2 / 10 ^ 7)
    (h1 : |r1 - X ^ Y1| ≤ (1832 / 10 ^ 7 + (7914 / 10 ^ 9) * Y1) * X ^ Y1)
    (h2 : |r2| ≤ (2:ℝ) ^ (-39:ℤ)) (hw : r1 ^ Y2 ≤ (2:ℝ) ^ (-39:ℤ)) : |r2 - X| < 25 / 10 ^ 5 := by
  have h39 := two_m39
  have hvpos : 0 < X ^ Y1 := Real.rpow_pos_of_pos hX0 _
  have hρ1a : 0 ≤ 1832 / 10 ^ 7 + (7914 / 10 ^ 9) * Y1 := by positivity
  have hρ1b : 1832 / 10 ^ 7 + (7914 / 10 ^ 9) * Y1 ≤ 1 / 1000 := by nlinarith
  have hnear := RoundTrip.rpow_near_one (r1 / X ^ Y1 - 1) Y2 _ (by
      have : r1 / X ^ Y1 - 1 = (r1 - X ^ Y1) / X ^ Y1 := by field_simp
      rw [this, abs_div, abs_of_pos hvpos, div_le_iff₀ hvpos]; exact h1) hρ1b (by linarith) (by linarith)
  have hpos2 : 0 < 1 + (r1 / X ^ Y1 - 1) := by
    have hr1 := (r1_bounds X Y1 r1 hX0 hX1 hY1a hY1b h1).1
    have : 1 + (r1 / X ^ Y1 - 1) = r1 / X ^ Y1 := by ring
    rw [this]; positivity
  have hsplit : r1 ^ Y2 = X ^ (Y1 * Y2) * (1 + (r1 / X ^ Y1 - 1)) ^ Y2 := by
    have e1 : r1 = X ^ Y1 * (1 + (r1 / X ^ Y1 - 1)) := by field_simp; ring
    conv_lhs => rw [e1]
    rw [Real.mul_rpow hvpos.le hpos2.le, ← Real.rpow_mul hX0.le]
  set a := (1 + (r1 / X ^ Y1 - 1)) ^ Y2
  set w := X ^ (Y1 * Y2)
  have hwpos : 0 < w := Real.rpow_pos_of_pos hX0 _
  obtain ⟨n1, n2⟩ := abs_le.mp hnear
  have hwsmall : w ≤ 2 / 10 ^ 11 := by
    rw [hsplit] at hw
    have hw' : w * a ≤ 1 / 10 ^ 11 := le_trans hw h39
    have hκ := kappa_bound Y1 Y2 hY1b hY2a hY2b hYY
    have : w * (1 / 2) ≤ w * a := mul_le_mul_of_nonneg_left (by linarith) hwpos.le
    linarith
  obtain ⟨yy1, yy2⟩ := abs_le.mp hYY
  have hwX : |w - X| ≤ 3 / 10 ^ 7 := by
    have hX1' : X = X ^ (1:ℝ) := (Real.rpow_one X).symm
    by_cases hc : 1 ≤ Y1 * Y2
    · have := PowCurve.rpow_exponent_pert X (Y1 * Y2) 1 hX0.le hX1 (by norm_num) hc
      rw [← hX1'] at this
      refine le_trans this ?_
      rw [div_one]; linarith
    · have hc' := le_of_lt (not_le.mp hc)
      have hpos : 0 < Y1 * Y2 := by nlinarith
      have := PowCurve.rpow_exponent_pert X 1 (Y1 * Y2) hX0.le hX1 hpos hc'
      rw [← hX1', abs_sub_comm] at this
      refine le_trans this ?_
      rw [div_le_iff₀ hpos]; nlinarith
  obtain ⟨w1, w2⟩ := abs_le.mp hwX
  have : |r2 - X| ≤ |r2| + |X| := abs_sub _ _
  rw [abs_of_pos hX0] at this
  have h2' : |r2| ≤ 1 / 10 ^ 11 := le_trans h2 h39
  linarith

/-- `2^(-13.65) ≤ 7.8e-5` -/
theorem two_m1365 : (2:ℝ) ^ (-(1365:ℝ) / 100) ≤ 86 / 10 ^ 6 := by
  have e : (-(1365:ℝ) / 100) = (-13:ℝ) + (-(13:ℝ) / 25) + (-(13:ℝ) / 100) := by norm_num
  rw [e, Real.rpow_add (by norm_num), Real.rpow_add (by norm_num)]
  have a1 : (2:ℝ) ^ (-13:ℝ) = (2:ℝ) ^ (-13:ℤ) := by rw [show (-13:ℝ) = ((-13:ℤ):ℝ) by norm_num, Real.rpow_intCast]
  have a2 := PowRel.two_pow_low
  have a3 : (2:ℝ) ^ (-(13:ℝ) / 100) ≤ 1 := Real.rpow_le_one_of_one_le_of_nonpos (by norm_num) (by norm_num)
  have a30 : 0 < (2:ℝ) ^ (-(13:ℝ) / 100) := Real.rpow_pos_of_pos (by norm_num) _
  have a20 : 0 < (2:ℝ) ^ (-(13:ℝ) / 25) := Real.rpow_pos_of_pos (by norm_num) _
  rw [a1]
  have h13 := two_m13
  have : (2:ℝ) ^ (-13:ℤ) * (2:ℝ) ^ (-(13:ℝ) / 25) ≤ (1221 / 10 ^ 7) * (7 / 10) := mul_le_mul h13 a2 a20.le (by norm_num)
  nlinarith

/-- first stage "both tiny" -/
theorem rt_tiny1 (X Y2 r1 r2 : ℝ) (hX0 : 0 ≤ X) (hXs : X ≤ (2:ℝ) ^ (-13:ℤ)) (hY2a : 35 / 100 ≤ Y2) (hY2b : Y2 ≤ 46 / 100)
    (hr10 : 0 ≤ r1) (hr1s : r1 ≤ (2:ℝ) ^ (-39:ℤ))
    (h2 : |r2 - r1 ^ Y2| ≤ (1832 / 10 ^ 7 + (7914 / 10 ^ 9) * Y2) * r1 ^ Y2 ∨ |r2| ≤ (2:ℝ) ^ (-39:ℤ)) : |r2 - X| < 25 / 10 ^ 5 := by
  have h13 := two_m13
  have h39 := two_m39
  have hsub : |r2 - X| ≤ |r2| + |X| := abs_sub _ _
  rw [abs_of_nonneg hX0] at hsub
  have hXs' : X ≤ 1221 / 10 ^ 7 := le_trans hXs h13
  rcases h2 with h | h
  · have hpw : r1 ^ Y2 ≤ ((2:ℝ) ^ (-39:ℤ)) ^ Y2 := Real.rpow_le_rpow hr10 hr1s (by linarith)
    have hpw2 : ((2:ℝ) ^ (-39:ℤ)) ^ Y2 ≤ (2:ℝ) ^ (-(1365:ℝ) / 100) := by
      rw [← Real.rpow_intCast, ← Real.rpow_mul (by norm_num)]
      apply Real.rpow_le_rpow_of_exponent_le (by norm_num)
      push_cast; nlinarith
    have hpw3 := two_m1365
    have hpow0 : 0 ≤ r1 ^ Y2 := Real.rpow_nonneg hr10 _
    have hr2abs : |r2| ≤ r1 ^ Y2 * (1 + 1 / 1000) := by
      have := abs_sub_abs_le_abs_sub r2 (r1 ^ Y2)
      rw [abs_of_nonneg hpow0] at this
      nlinarith
    have hp : r1 ^ Y2 ≤ 86 / 10 ^ 6 := le_trans hpw (le_trans hpw2 hpw3)
    nlinarith
  · have h' : |r2| ≤ 1 / 10 ^ 11 := le_trans h h39
    linarith

/-- the generic two-stage statement -/
theorem roundtrip_pow (B : Build) (hB : B.fastmath = true) (thr1 zero1 y1 thr2 zero2 y2 : Nat)
    (ht1 : Finite thr1 ∧ toReal thr1 = 0) (ht2 : Finite thr2 ∧ toReal thr2 = 0) (hz2 : Finite zero2 ∧ toReal zero2 = 0)
    (hy1 : Finite y1) (hy2 : Finite y2) (hY1a : 2 ≤ toReal y1) (hY1b : toReal y1 ≤ 3)
    (hY2a : 35 / 100 ≤ toReal y2) (hY2b : toReal y2 ≤ 46 / 100) (hYY : |toReal y1 * toReal y2 - 1| ≤ 2 / 10 ^ 7)
    (x : Nat) (hxw : WF x) (hx : Finite x) (h0 : 0 ≤ toReal x) (h1 : toReal x ≤ 1) :
    ∃ r1 r2, (if lt x thr1 then Out.ok zero1 else powf B x y1) = .ok r1 ∧
      (if lt r1 thr2 then Out.ok zero2 else powf B r1 y2) = .ok r2 ∧ Finite r2 ∧ |toReal r2 - toReal x| < 25 / 10 ^ 5 := by
  rw [not_lt_zero x thr1 hx ht1 h0]
  simp only [Bool.false_eq_true, if_false]
  have hp : ∀ a b, powf B a b = powfFast B.fma a b := by intro a b; unfold powf; rw [if_pos hB]
  rw [hp]
  set X := toReal x with hX
  set Y1 := toReal y1 with hY1
  set Y2 := toReal y2 with hY2
  obtain ⟨r1, hr1, hr1f, hr1c⟩ := PowRel.pow_rel B.fma x y1 hxw hx h0 (by linarith) hy1 (by linarith) (by linarith)
  have hr1w : WF r1 := by
    have : powf B x y1 = .ok r1 := by rw [hp]; exact hr1
    exact powf_wf B hB _ _ _ this
  refine ⟨r1, ?_⟩
  have h13 := two_m13
  have h39 := two_m39
  have hp13 : (0:ℝ) < (2:ℝ) ^ (-13:ℤ) := by positivity
  -- second stage in general form
  have stage2 : ∀ (hr10 : 0 ≤ toReal r1) (hr12 : toReal r1 ≤ 2), ∃ r2, powfFast B.fma r1 y2 = .ok r2 ∧ Finite r2 ∧
      (|toReal r2 - (toReal r1) ^ Y2| ≤ (1832 / 10 ^ 7 + (7914 / 10 ^ 9) * Y2) * (toReal r1) ^ Y2 ∨
       (|toReal r2| ≤ (2:ℝ) ^ (-39:ℤ) ∧ (toReal r1) ^ Y2 ≤ (2:ℝ) ^ (-39:ℤ))) :=
    fun hr10 hr12 => PowRel.pow_rel B.fma r1 y2 hr1w hr1f hr10 hr12 hy2 (by linarith) (by linarith)
  rcases hr1c with hrel | ⟨ht, hv⟩
  · rcases eq_or_lt_of_le h0 with hX0 | hXpos
    · -- X = 0
      have hv0 : X ^ Y1 = 0 := by rw [← hX0]; exact Real.zero_rpow (by linarith)
      rw [hv0] at hrel
      have hr10 : toReal r1 = 0 := by
        have : |toReal r1 - 0| ≤ 0 := by simpa using hrel
        have := abs_nonpos_iff.mp this; linarith
      have hlt : lt r1 thr2 = false := not_lt_zero r1 thr2 hr1f ht2 (by rw [hr10])
      obtain ⟨r2, hr2, hr2f, hr2c⟩ := stage2 (by rw [hr10]) (by rw [hr10]; norm_num)
      refine ⟨r2, hr1, by rw [hlt]; simp only [Bool.false_eq_true, if_false]; rw [hp]; exact hr2, hr2f, ?_⟩
      rw [hr10, Real.zero_rpow (by linarith)] at hr2c
      rw [← hX0]
      rcases hr2c with h | ⟨h, _⟩
      · have : |toReal r2 - 0| ≤ 0 := by simpa using h
        have := abs_nonpos_iff.mp this
        rw [sub_zero] at this ⊢; rw [this]; norm_num
      · rw [sub_zero]
        have := two_m39
        have h' : |toReal r2| ≤ 1 / 10 ^ 11 := le_trans h this
        linarith
    · obtain ⟨hr1pos, hr1le, hr1lo⟩ := r1_bounds X Y1 (toReal r1) hXpos h1 hY1a hY1b hrel
      have hlt : lt r1 thr2 = false := not_lt_zero r1 thr2 hr1f ht2 hr1pos.le
      by_cases hreg : X ≤ 89 / 100
      · obtain ⟨r2, hr2, hr2f, hr2c⟩ := stage2 hr1pos.le (by linarith)
        refine ⟨r2, hr1, by rw [hlt]; simp only [Bool.false_eq_true, if_false]; rw [hp]; exact hr2, hr2f, ?_⟩
        rcases hr2c with h | ⟨h, hw⟩
        · exact rt_low X Y1 Y2 _ _ hXpos hreg hY1a hY1b hY2a hY2b hYY hrel h
        · exact rt_tiny2 X Y1 Y2 _ _ hXpos h1 hY1a hY1b hY2a hY2b hYY hrel h hw
      · have hreg' := not_le.mp hreg
        obtain ⟨r2, hr2, hr2f, hr2e⟩ := PowRel.pow_near1 B.fma r1 y2 (pos_sign_clear r1 hr1w hr1f hr1pos) hr1f (hr1lo hreg') hr1le hy2
          (by linarith) hY2b
        refine ⟨r2, hr1, by rw [hlt]; simp only [Bool.false_eq_true, if_false]; rw [hp]; exact hr2, hr2f, ?_⟩
        exact rt_high X Y1 Y2 _ _ hXpos h1 hY1a hY1b hY2a hY2b hYY hrel hr2e
  · -- first stage tiny: X ≤ 2^-13
    have hX3 : X ^ (3:ℝ) ≤ X ^ Y1 := by
      rcases eq_or_lt_of_le h0 with hX0 | hXpos
      · rw [← hX0, Real.zero_rpow (by norm_num), Real.zero_rpow (by linarith)]
      · exact Real.rpow_le_rpow_of_exponent_ge hXpos h1 hY1b
    have hXs : X ≤ (2:ℝ) ^ (-13:ℤ) := cube_small X h0 (le_trans hX3 hv)
    by_cases hlt : lt r1 thr2 = true
    · refine ⟨zero2, hr1, by rw [hlt]; simp, hz2.1, ?_⟩
      rw [hz2.2, zero_sub, abs_neg, abs_of_nonneg h0]
      have hXs' : X ≤ 1221 / 10 ^ 7 := le_trans hXs two_m13
      linarith
    · have hlt' : lt r1 thr2 = false := by cases hq : lt r1 thr2 <;> simp_all
      have hr10 : 0 ≤ toReal r1 := by
        by_contra hc
        have := (lt_iff r1 thr2 hr1f ht2.1).mpr (by rw [ht2.2]; exact not_le.mp hc)
        rw [this] at hlt'; cases hlt'
      have hr1small : toReal r1 ≤ (2:ℝ) ^ (-39:ℤ) := by rw [abs_of_nonneg hr10] at ht; exact ht
      have hr1s' : toReal r1 ≤ 1 / 10 ^ 11 := le_trans hr1small two_m39
      obtain ⟨r2, hr2, hr2f, hr2c⟩ := stage2 hr10 (by linarith)
      refine ⟨r2, hr1, by rw [hlt']; simp only [Bool.false_eq_true, if_false]; rw [hp]; exact hr2, hr2f, ?_⟩
      exact rt_tiny1 X Y2 _ _ h0 hXs hY2a hY2b hr10 hr1small (hr2c.imp id (fun h => h.1))


/-- exponent pairs of the three curve pairs, evaluated on the regenerated constants -/
def pairOk (y1 y2 : Nat) : Bool :=
  finiteB y1 && finiteB y2 && decide (2 ≤ ratOf y1) && decide (ratOf y1 ≤ 3) && decide (35 / 100 ≤ ratOf y2) && decide (ratOf y2 ≤ 46 / 100) &&
  decide (|ratOf y1 * ratOf y2 - 1| ≤ 2 / 10 ^ 7)

def zeroOk (a : Nat) : Bool := finiteB a && decide (ratOf a = 0)

theorem cert_pairs :
    pairOk C.rec_1886_eotf_f2 (div C.rec_1886_inverse_eotf_f2 C.rec_1886_inverse_eotf_f3) = true ∧
    pairOk C.rec_470m_oetf_f2 (div C.rec_470m_inverse_oetf_f2 C.rec_470m_inverse_oetf_f3) = true ∧
    pairOk C.rec_470bg_oetf_f2 (div C.rec_470bg_inverse_oetf_f2 C.rec_470bg_inverse_oetf_f3) = true ∧
    zeroOk C.rec_1886_eotf_f0 = true ∧ zeroOk C.rec_1886_inverse_eotf_f0 = true ∧ zeroOk C.rec_1886_inverse_eotf_f1 = true ∧
    zeroOk C.rec_470m_oetf_f0 = true ∧ zeroOk C.rec_470m_inverse_oetf_f0 = true ∧ zeroOk C.rec_470m_inverse_oetf_f1 = true ∧
    zeroOk C.rec_470bg_oetf_f0 = true ∧ zeroOk C.rec_470bg_inverse_oetf_f0 = true ∧ zeroOk C.rec_470bg_inverse_oetf_f1 = true := by
  decide +kernel

theorem zero_of' (a : Nat) (h : zeroOk a = true) : Finite a ∧ toReal a = 0 := by
  unfold zeroOk at h
  simp only [Bool.and_eq_true, decide_eq_true_eq] at h
  exact zero_of a h.1 h.2

/-- what C10 says about one characteristic -/
def RoundTripWithin (f g : Nat → Out Nat) : Prop :=
  ∀ x : Nat, WF x → Finite x → 0 ≤ toReal x → toReal x ≤ 1 →
    ∃ r1 r2, f x = .ok r1 ∧ g r1 = .ok r2 ∧ Finite r2 ∧ |toReal r2 - toReal x| < 25 / 10 ^ 5

theorem pair_roundtrip (B : Build) (hB : B.fastmath = true) (thr1 zero1 y1 thr2 zero2 y2 : Nat)
    (hp : pairOk y1 y2 = true) (h1 : zeroOk thr1 = true) (h2 : zeroOk thr2 = true) (h3 : zeroOk zero2 = true) :
    RoundTripWithin (fun x => if lt x thr1 then Out.ok zero1 else powf B x y1) (fun r => if lt r thr2 then Out.ok zero2 else powf B r y2) := by
  unfold pairOk at hp
  simp only [Bool.and_eq_true, decide_eq_true_eq] at hp
  obtain ⟨⟨⟨⟨⟨⟨f1, f2⟩, a1⟩, a2⟩, a3⟩, a4⟩, a5⟩ := hp
  obtain ⟨fy1, vy1⟩ := Exp2.rat_val y1 f1
  obtain ⟨fy2, vy2⟩ := Exp2.rat_val y2 f2
  intro x hxw hx h0 h1'
  have c1 : (2:ℝ) ≤ toReal y1 := by rw [vy1]; exact_mod_cast a1
  have c2 : toReal y1 ≤ 3 := by rw [vy1]; exact_mod_cast a2
  have c3 : (35:ℝ) / 100 ≤ toReal y2 := by
    rw [vy2]; have := (Rat.cast_le (K := ℝ)).mpr a3; push_cast at this; exact this
  have c4 : toReal y2 ≤ 46 / 100 := by
    rw [vy2]; have := (Rat.cast_le (K := ℝ)).mpr a4; push_cast at this; exact this
  have c5 : |toReal y1 * toReal y2 - 1| ≤ 2 / 10 ^ 7 := by
    rw [vy1, vy2]; have := (Rat.cast_le (K := ℝ)).mpr a5; push_cast at this; exact this
  exact roundtrip_pow B hB thr1 zero1 y1 thr2 zero2 y2 (zero_of' _ h1) (zero_of' _ h2) (zero_of' _ h3) fy1 fy2 c1 c2 c3 c4 c5 x hxw hx h0 h1'

/-- **C10, power-law family through the dispatch**: for each of the seven characteristics, gamma -> linear -> gamma returns
every binary32 of `[0, 1]` within 2.5e-4 -/
theorem power_law_roundtrip (B : Build) (hB : B.fastmath = true) (t : TC) (ht : t ∈ powerLaw) :
    ∃ f g, toLinearFn B t = .ok f ∧ toGammaFn B t = .ok g ∧ RoundTripWithin f g := by
  obtain ⟨p1, p2, p3, z1, z2, z3, z4, z5, z6, z7, z8, z9⟩ := cert_pairs
  simp only [powerLaw, List.mem_cons, List.mem_nil_iff, or_false] at ht
  rcases ht with rfl | rfl | rfl | rfl | rfl | rfl | rfl
  all_goals first
    | exact ⟨_, _, rfl, rfl, pair_roundtrip B hB _ _ _ _ _ _ p1 z1 z2 z3⟩
    | exact ⟨_, _, rfl, rfl, pair_roundtrip B hB _ _ _ _ _ _ p2 z4 z5 z6⟩
    | exact ⟨_, _, rfl, rfl, pair_roundtrip B hB _ _ _ _ _ _ p3 z7 z8 z9⟩

end C10
