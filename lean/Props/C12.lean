import Model.Types
import Proofs.Frame
/-! C12 — constructors accept exactly the well-formed images and keep them verbatim. -/
namespace C12
open FrameM FrameP Api Mat32

/-! ### float image constructors -/

/-- `X::new(data, w, h)` succeeds iff `data.len() == w * h` (true multiplication: a `Vec` is shorter than 2^64) -/
theorem fimg_new_iff (d : Array V3) (w h : Nat) (hd : d.size < USIZE) :
    (∃ r, FImg.new d w h = .ok r) ↔ d.size = w * h := by
  unfold FImg.new dimsOk
  constructor
  · rintro ⟨r, hr⟩
    split at hr
    · rename_i hc; simp at hc; exact hc.2.symm
    · simp at hr
  · intro he
    have : (decide (w * h < USIZE) && decide (w * h = d.size)) = true := by simp; omega
    simp [this]

theorem fimg_new_err (d : Array V3) (w h : Nat) : (∃ r, FImg.new d w h = .ok r) ∨ FImg.new d w h = .error .ResolutionMismatch := by
  unfold FImg.new; split <;> simp

theorem fimg_new_verbatim (d : Array V3) (w h : Nat) (r : FImg) (hr : FImg.new d w h = .ok r) : r.data = d ∧ r.w = w ∧ r.h = h := by
  unfold FImg.new at hr; split at hr <;> simp at hr; subst hr; exact ⟨rfl, rfl, rfl⟩

theorem rgb_new_iff (d : Array V3) (w h : Nat) (t : TC) (p : CP) (hd : d.size < USIZE) :
    (∃ r, Rgb.new d w h t p = .ok r) ↔ d.size = w * h := by
  unfold Rgb.new dimsOk
  constructor
  · rintro ⟨r, hr⟩
    split at hr
    · rename_i hc; simp at hc; exact hc.2.symm
    · simp at hr
  · intro he
    have : (decide (w * h < USIZE) && decide (w * h = d.size)) = true := by simp; omega
    simp [this]

theorem rgb_new_verbatim (d : Array V3) (w h : Nat) (t : TC) (p : CP) (r : Rgb) (hr : Rgb.new d w h t p = .ok r) :
    r.data = d ∧ r.w = w ∧ r.h = h := by
  unfold Rgb.new at hr; split at hr <;> simp at hr; subst hr; exact ⟨rfl, rfl, rfl⟩

/-- the wrap-around case that the unrepaired code accepted (D7): 2^32 x 2^32 with no data is rejected -/
example : FImg.new #[] 4294967296 4294967296 = .error .ResolutionMismatch := by rfl

/-! ### the YUV constructor -/

section yuv
variable (y u v : Plane) (cfg : Cfg) (ts : Nat)

@[reducible] def DecimMismatch : Prop := cfg.ssx ≠ u.cfg.xdec % 256 ∨ cfg.ssx ≠ v.cfg.xdec % 256 ∨ cfg.ssy ≠ u.cfg.ydec % 256 ∨ cfg.ssy ≠ v.cfg.ydec % 256
@[reducible] def ChromaSizeWrong : Prop :=
  u.cfg.width ≠ y.cfg.width >>> cfg.ssx ∨ u.cfg.height ≠ y.cfg.height >>> cfg.ssy ∨ v.cfg.width ≠ y.cfg.width >>> cfg.ssx ∨ v.cfg.height ≠ y.cfg.height >>> cfg.ssy
@[reducible] def Covered : Prop := y.covers = true ∧ u.covers = true ∧ v.covers = true
def maxCode : Nat := 65535 / 2 ^ (16 - cfg.bd)
/-- a visible sample of some plane exceeds 2^n - 1 -/
def OutOfRange : Prop := hasAbove y (maxCode cfg) ∨ hasAbove u (maxCode cfg) ∨ hasAbove v (maxCode cfg)
@[reducible] def Scanned : Prop := ts = 2 ∧ cfg.bd < 16
instance : Decidable (DecimMismatch u v cfg) := by unfold DecimMismatch; infer_instance
instance : Decidable (ChromaSizeWrong y u v cfg) := by unfold ChromaSizeWrong; infer_instance
instance : Decidable (Covered y u v) := by unfold Covered; infer_instance
instance : Decidable (Scanned cfg ts) := by unfold Scanned; infer_instance

/-- the statement's four clauses (plus buffer coverage - the buffer holds the declared geometry and `width * height` fits a
`usize` - which frames built with `Plane::new` always satisfy) -/
def WellFormed : Prop :=
  ¬ DecimMismatch u v cfg ∧ y.cfg.width % 2 ^ cfg.ssx = 0 ∧ y.cfg.height % 2 ^ cfg.ssy = 0 ∧ ¬ ChromaSizeWrong y u v cfg ∧
  Covered y u v ∧ (Scanned cfg ts → ¬ OutOfRange y u v cfg)

def good : Yuv := { y, u, v, cfg := cfg.fixUnspecified y.cfg.width y.cfg.height, ts }

/-! `Yuv::new`: the documented errors in the documented precedence -/

theorem yuvNew_decim (h : DecimMismatch u v cfg) : Yuv.new y u v cfg ts = .ok (.error .SubsamplingMismatch) := by
  unfold Yuv.new; dsimp only
  repeat' split
  all_goals first | rfl | contradiction | omega

theorem yuvNew_width (h1 : ¬ DecimMismatch u v cfg) (h2 : y.cfg.width % 2 ^ cfg.ssx ≠ 0) :
    Yuv.new y u v cfg ts = .ok (.error .InvalidLumaWidth) := by
  unfold Yuv.new; dsimp only
  repeat' split
  all_goals first | rfl | contradiction | omega

theorem yuvNew_height (h1 : ¬ DecimMismatch u v cfg) (h2 : y.cfg.width % 2 ^ cfg.ssx = 0) (h3 : y.cfg.height % 2 ^ cfg.ssy ≠ 0) :
    Yuv.new y u v cfg ts = .ok (.error .InvalidLumaHeight) := by
  unfold Yuv.new; dsimp only
  repeat' split
  all_goals first | rfl | contradiction | omega

theorem yuvNew_chroma (h1 : ¬ DecimMismatch u v cfg) (h2 : y.cfg.width % 2 ^ cfg.ssx = 0) (h3 : y.cfg.height % 2 ^ cfg.ssy = 0)
    (h4 : ChromaSizeWrong y u v cfg) : Yuv.new y u v cfg ts = .ok (.error .SubsamplingMismatch) := by
  unfold Yuv.new; dsimp only
  repeat' split
  all_goals first | rfl | contradiction | omega

theorem yuvNew_cover (h1 : ¬ DecimMismatch u v cfg) (h2 : y.cfg.width % 2 ^ cfg.ssx = 0) (h3 : y.cfg.height % 2 ^ cfg.ssy = 0)
    (h4 : ¬ ChromaSizeWrong y u v cfg) (h5 : ¬ Covered y u v) : Yuv.new y u v cfg ts = .ok (.error .InvalidData) := by
  have hc : (!(y.covers && u.covers && v.covers)) = true := by
    unfold Covered at h5; cases hy : y.covers <;> cases hu : u.covers <;> cases hv : v.covers <;> simp_all
  have h2' : ¬ y.cfg.width % 2 ^ cfg.ssx ≠ 0 := by omega
  have h3' : ¬ y.cfg.height % 2 ^ cfg.ssy ≠ 0 := by omega
  unfold Yuv.new; dsimp only
  rw [if_neg h1, if_neg h2', if_neg h3', if_neg h4, if_pos hc]

/-- with everything before the sample scan satisfied, the constructor returns what the scan decides -/
theorem yuvNew_scan (hw : 0 < y.cfg.width) (h1 : ¬ DecimMismatch u v cfg) (h2 : y.cfg.width % 2 ^ cfg.ssx = 0) (h3 : y.cfg.height % 2 ^ cfg.ssy = 0)
    (h4 : ¬ ChromaSizeWrong y u v cfg) (h5 : Covered y u v) :
    (Scanned cfg ts → OutOfRange y u v cfg → Yuv.new y u v cfg ts = .ok (.error .InvalidData)) ∧
    ((Scanned cfg ts → ¬ OutOfRange y u v cfg) → Yuv.new y u v cfg ts = .ok (.ok (good y u v cfg ts))) := by
  obtain ⟨cy, cu, cv⟩ := h5
  have hcw := FrameP.shr_pos _ _ hw h2
  have huw : u.cfg.width ≠ 0 := by unfold ChromaSizeWrong at h4; omega
  have hvw : v.cfg.width ≠ 0 := by unfold ChromaSizeWrong at h4; omega
  obtain ⟨by_, hby, hbyi⟩ := anyAbove_spec y (maxCode cfg) cy (Or.inl (by omega))
  obtain ⟨bu, hbu, hbui⟩ := anyAbove_spec u (maxCode cfg) cu (Or.inl huw)
  obtain ⟨bv, hbv, hbvi⟩ := anyAbove_spec v (maxCode cfg) cv (Or.inl hvw)
  unfold maxCode at hby hbu hbv
  have key : Yuv.new y u v cfg ts =
      if ts = 2 ∧ cfg.bd < 16 then (if by_ || bu || bv then .ok (.error .InvalidData) else .ok (.ok (good y u v cfg ts)))
      else .ok (.ok (good y u v cfg ts)) := by
    have hc : ¬ (!(y.covers && u.covers && v.covers)) = true := by simp [cy, cu, cv]
    have h2' : ¬ y.cfg.width % 2 ^ cfg.ssx ≠ 0 := by omega
    have h3' : ¬ y.cfg.height % 2 ^ cfg.ssy ≠ 0 := by omega
    unfold Yuv.new; dsimp only
    rw [if_neg h1, if_neg h2', if_neg h3', if_neg h4, if_neg hc]
    split
    · rw [hby, hbu, hbv]
      cases by_ <;> cases bu <;> cases bv <;> rfl
    · rfl
  rw [key]
  constructor
  · intro hs ho
    have hs' : ts = 2 ∧ cfg.bd < 16 := hs
    simp only [hs', and_self, if_true]
    have : (by_ || bu || bv) = true := by
      rcases ho with h | h | h
      · simp [hbyi.mpr h]
      · simp [hbui.mpr h]
      · simp [hbvi.mpr h]
    simp [this]
  · intro hno
    split
    · rename_i hs
      have hn := hno hs
      have : (by_ || bu || bv) = false := by
        cases hb1 : by_
        · cases hb2 : bu
          · cases hb3 : bv
            · rfl
            · exact absurd (Or.inr (Or.inr (hbvi.mp hb3))) hn
          · exact absurd (Or.inr (Or.inl (hbui.mp hb2))) hn
        · exact absurd (Or.inl (hbyi.mp hb1)) hn
      simp [this]
    · rfl

/-- accepted iff well-formed; the accepted image is the frame verbatim with the resolved config -/
theorem yuvNew_iff (hw : 0 < y.cfg.width) :
    ((∃ g, Yuv.new y u v cfg ts = .ok (.ok g)) ↔ WellFormed y u v cfg ts) ∧
    (WellFormed y u v cfg ts → Yuv.new y u v cfg ts = .ok (.ok (good y u v cfg ts))) := by
  have hok : WellFormed y u v cfg ts → Yuv.new y u v cfg ts = .ok (.ok (good y u v cfg ts)) := by
    rintro ⟨a, b, c, d, e, f⟩
    exact (yuvNew_scan y u v cfg ts hw a b c d e).2 f
  refine ⟨⟨?_, fun h => ⟨_, hok h⟩⟩, hok⟩
  rintro ⟨g, hg⟩
  by_cases a : DecimMismatch u v cfg
  · rw [yuvNew_decim y u v cfg ts a] at hg; simp at hg
  by_cases b : y.cfg.width % 2 ^ cfg.ssx = 0
  case neg => rw [yuvNew_width y u v cfg ts a b] at hg; simp at hg
  by_cases c : y.cfg.height % 2 ^ cfg.ssy = 0
  case neg => rw [yuvNew_height y u v cfg ts a b c] at hg; simp at hg
  by_cases d : ChromaSizeWrong y u v cfg
  · rw [yuvNew_chroma y u v cfg ts a b c d] at hg; simp at hg
  by_cases e : Covered y u v
  case neg => rw [yuvNew_cover y u v cfg ts a b c d e] at hg; simp at hg
  refine ⟨a, b, c, d, e, ?_⟩
  intro hs ho
  rw [(yuvNew_scan y u v cfg ts hw a b c d e).1 hs ho] at hg; simp at hg

/-- an accepted image exposes exactly the frame and the (resolved) config it was given -/
theorem yuvNew_verbatim (g : Yuv) (hg : Yuv.new y u v cfg ts = .ok (.ok g)) :
    g.y = y ∧ g.u = u ∧ g.v = v ∧ g.ts = ts ∧ g.cfg = cfg.fixUnspecified y.cfg.width y.cfg.height := by
  unfold Yuv.new at hg
  dsimp only at hg
  repeat' split at hg
  all_goals (first | (simp at hg; done) | skip)
  all_goals (simp at hg; subst hg; exact ⟨rfl, rfl, rfl, rfl, rfl⟩)
end yuv

/-! ### frames built with `Plane::new` (whose buffer exists, so its length fits a `usize`) always cover their geometry -/
theorem planeNew_covers (w h xd yd xp yp tsz : Nat) (data : Array Nat) (hw : 0 < w) (hh : 0 < h)
    (hs : data.size = (Plane.new w h xd yd xp yp tsz).data.size) (hfit : (Plane.new w h xd yd xp yp tsz).data.size ≤ USIZE_MAX) :
    ({ (Plane.new w h xd yd xp yp tsz) with data := data } : Plane).covers = true :=
  FrameP.planeNew_covers w h xd yd xp yp tsz data hw hh hs hfit

/-- non-vacuity: a concrete well-formed 4:2:0 frame (2x2 luma, 1x1 chroma, u8) meets the hypotheses and is accepted -/
def exY : Plane := { data := #[10, 20, 30, 40], cfg := { stride := 2, allocHeight := 2, width := 2, height := 2, xdec := 0, ydec := 0, xpad := 0, ypad := 0, xorigin := 0, yorigin := 0 } }
def exC : Plane := { data := #[128], cfg := { stride := 1, allocHeight := 1, width := 1, height := 1, xdec := 1, ydec := 1, xpad := 0, ypad := 0, xorigin := 0, yorigin := 0 } }
def exCfg : Cfg := { bd := 8, ssx := 1, ssy := 1, full := false, matrix := .BT709, transfer := .Unspecified, primaries := .BT709 }
example : 0 < exY.cfg.width ∧ WellFormed exY exC exC exCfg 1 :=
  ⟨by decide, by decide, by decide, by decide, by decide, by decide, fun h => absurd h (by decide)⟩

end C12
