import Proofs.RatCheck
import Model.Types
import Props.C11
import Props.C14
import Props.C01.M_false_BT709
import Props.C01.M_false_BT470M
import Props.C01.M_false_BT470BG
import Props.C01.M_false_ST170M
import Props.C01.M_false_ST240M
import Props.C01.M_false_BT2020NonConstantLuminance
import Props.C01.M_false_YCgCo
import Props.C01.M_true_BT709
import Props.C01.M_true_BT470M
import Props.C01.M_true_BT470BG
import Props.C01.M_true_ST170M
import Props.C01.M_true_ST240M
import Props.C01.M_true_BT2020NonConstantLuminance
import Props.C01.M_true_YCgCo
import Props.C01.N_8
import Props.C01.N_9
import Props.C01.N_10
import Props.C01.N_11
import Props.C01.N_12
import Props.C01.N_13
import Props.C01.N_14
import Props.C01.N_15
import Props.C01.N_16
/-! C01 — YUV->RGB decoding equals the H.273 definition for every code triple.
Structure of the proof (all machine-checked):
* (N) `mat_*`: the model's computed inverse matrix (Cramer in binary32, both FMA modes) is entry-wise within 2.5e-7 of the exact
  rational H.273 matrix - evaluated by `native_decide`, one module per matrix;
* (N) `norm_*`: EVERY code of every depth 8..16 and both ranges normalises (FMA + clamp in the model) within 2e-7 of the H.273
  formula - exhaustive over the 2^bd codes;
* (K) `ratDiffLe_sound`, `dot3_nofma`/`dot3_fma` (standard-model rounding analysis over the reals) and the composition below:
  hence for ALL (Y,U,V) triples - no enumeration of triples - each component is within 3e-6 of H.273. -/
namespace C01
open F32 Mat32 ColorM CheckDecode Real

noncomputable def qR (q : Q) : ℝ := (q.num : ℝ) / q.den

/-- a matrix row applied to a pixel, as the model computes it (`Matrix::mul_arr`) -/
def rowDot (fm : Bool) (r p : V3) : Nat := fmadd fm r.x p.x (fmadd fm r.y p.y (F32.mul r.z p.z))

theorem mulArr_rows (fm : Bool) (m : M3) (p : V3) : M3.mulArr fm m p = ⟨rowDot fm m.r1 p, rowDot fm m.r2 p, rowDot fm m.r3 p⟩ := rfl

theorem entry_facts (a : Nat) (q : Q) (h : entryOk a q = true) :
    Bnd a 2.000001 ∧ |toReal a - qR q| ≤ 25 / 100000000 ∧ |qR q| ≤ 2 := by
  unfold entryOk at h
  simp only [Bool.and_eq_true, decide_eq_true_eq] at h
  obtain ⟨⟨h1, h2⟩, h3⟩ := h
  obtain ⟨hf, hv⟩ := ratDiffLe_sound a q.num q.den 25 100000000 h2 (by norm_num) h1
  have hq : (0:ℝ) < q.den := by exact_mod_cast h2
  have hb : |qR q| ≤ 2 := by
    unfold qR
    rw [abs_div, abs_of_pos hq, div_le_iff₀ hq, ← natAbs_cast]
    exact_mod_cast h3
  have hv' : |toReal a - qR q| ≤ 25 / 100000000 := by unfold qR; simpa using hv
  refine ⟨⟨hf, ?_⟩, hv', hb⟩
  have := abs_sub_abs_le_abs_sub (toReal a) (qR q)
  linarith

/-- one output component: a checked row applied to a checked normalised pixel is within 3e-6 of the exact H.273 value -/
theorem row_err (fm : Bool) (r : V3) (q : Q3) (p : V3) (yn un vn : ℝ) (hr : rowOk r q = true)
    (hy : Finite p.x ∧ |toReal p.x - yn| ≤ 2 / 10000000) (hu : Finite p.y ∧ |toReal p.y - un| ≤ 2 / 10000000)
    (hv : Finite p.z ∧ |toReal p.z - vn| ≤ 2 / 10000000)
    (hyn : |yn| ≤ 1) (hun : |un| ≤ 1 / 2) (hvn : |vn| ≤ 1 / 2) :
    Finite (rowDot fm r p) ∧ |toReal (rowDot fm r p) - (qR q.a * yn + (qR q.b * un + qR q.c * vn))| ≤ 3 / 1000000 := by
  unfold rowOk at hr
  simp only [Bool.and_eq_true] at hr
  obtain ⟨ba, ea, qa⟩ := entry_facts r.x q.a hr.1.1
  obtain ⟨bb, eb, qb⟩ := entry_facts r.y q.b hr.1.2
  obtain ⟨bc, ec, qc⟩ := entry_facts r.z q.c hr.2
  have bx : Bnd p.x 1.000001 := ⟨hy.1, by have := abs_sub_abs_le_abs_sub (toReal p.x) yn; linarith [hy.2]⟩
  have by_ : Bnd p.y 0.500001 := ⟨hu.1, by have := abs_sub_abs_le_abs_sub (toReal p.y) un; linarith [hu.2]⟩
  have bz : Bnd p.z 0.500001 := ⟨hv.1, by have := abs_sub_abs_le_abs_sub (toReal p.z) vn; linarith [hv.2]⟩
  have hsm : (2.000001:ℝ) * 1.000001 ≤ 1000 ∧ (2.000001:ℝ) * 0.500001 ≤ 1000 ∧ (2.000001:ℝ) * 0.500001 ≤ 1000 := by norm_num
  -- the data-independent part: distance of the exact dot product of the rounded operands to the exact dot product of the spec
  have hspec : |(toReal r.x * toReal p.x + (toReal r.y * toReal p.y + toReal r.z * toReal p.z)) - (qR q.a * yn + (qR q.b * un + qR q.c * vn))|
      ≤ 18 / 10000000 := by
    have e1 : |toReal r.x * toReal p.x - qR q.a * yn| ≤ 25 / 100000000 * 1.000001 + 2 * (2 / 10000000) := by
      have : toReal r.x * toReal p.x - qR q.a * yn = (toReal r.x - qR q.a) * toReal p.x + qR q.a * (toReal p.x - yn) := by ring
      rw [this]
      refine le_trans (abs_add_le _ _) ?_
      rw [abs_mul, abs_mul]
      have := mul_le_mul ea bx.2 (abs_nonneg _) (by norm_num)
      have := mul_le_mul qa hy.2 (abs_nonneg _) (by norm_num)
      linarith
    have e2 : |toReal r.y * toReal p.y - qR q.b * un| ≤ 25 / 100000000 * 0.500001 + 2 * (2 / 10000000) := by
      have : toReal r.y * toReal p.y - qR q.b * un = (toReal r.y - qR q.b) * toReal p.y + qR q.b * (toReal p.y - un) := by ring
      rw [this]
      refine le_trans (abs_add_le _ _) ?_
      rw [abs_mul, abs_mul]
      have := mul_le_mul eb by_.2 (abs_nonneg _) (by norm_num)
      have := mul_le_mul qb hu.2 (abs_nonneg _) (by norm_num)
      linarith
    have e3 : |toReal r.z * toReal p.z - qR q.c * vn| ≤ 25 / 100000000 * 0.500001 + 2 * (2 / 10000000) := by
      have : toReal r.z * toReal p.z - qR q.c * vn = (toReal r.z - qR q.c) * toReal p.z + qR q.c * (toReal p.z - vn) := by ring
      rw [this]
      refine le_trans (abs_add_le _ _) ?_
      rw [abs_mul, abs_mul]
      have := mul_le_mul ec bz.2 (abs_nonneg _) (by norm_num)
      have := mul_le_mul qc hv.2 (abs_nonneg _) (by norm_num)
      linarith
    rw [abs_le] at e1 e2 e3 ⊢
    constructor <;> linarith [e1.1, e1.2, e2.1, e2.2, e3.1, e3.2]
  have hu1 : u = 1 / 16777216 := u_val
  have he1 := eta_le
  have he0 := eta_pos
  cases fm
  · obtain ⟨b5, e5⟩ := dot3_nofma r.x p.x r.y p.y r.z p.z 2.000001 1.000001 2.000001 0.500001 2.000001 0.500001 ba bx bb by_ bc bz hsm
    refine ⟨b5.1, ?_⟩
    have hE : E5 2.000001 1.000001 2.000001 0.500001 2.000001 0.500001 ≤ 7 / 10000000 := by
      unfold E5 T3 T1; rw [hu1]; nlinarith [he1, he0]
    show |toReal (F32.add (F32.mul r.x p.x) (F32.add (F32.mul r.y p.y) (F32.mul r.z p.z))) - _| ≤ _
    rw [abs_le] at e5 hspec ⊢
    constructor <;> linarith [e5.1, e5.2, hspec.1, hspec.2]
  · obtain ⟨b3, e3⟩ := dot3_fma r.x p.x r.y p.y r.z p.z 2.000001 1.000001 2.000001 0.500001 2.000001 0.500001 ba bx bb by_ bc bz hsm
    refine ⟨b3.1, ?_⟩
    have hE : EF 2.000001 1.000001 2.000001 0.500001 2.000001 0.500001 ≤ 7 / 10000000 := by
      unfold EF F2 T1; rw [hu1]; nlinarith [he1, he0]
    show |toReal (F32.fma r.x p.x (F32.fma r.y p.y (F32.mul r.z p.z))) - _| ≤ _
    rw [abs_le] at e3 hspec ⊢
    constructor <;> linarith [e3.1, e3.2, hspec.1, hspec.2]


/-! ### assembling the evaluated checks -/

theorem mat_all (fm : Bool) (m : MC) (hm : m ∈ std7) : matOk fm m = true := by
  simp only [std7, List.mem_cons, List.not_mem_nil, or_false] at hm
  cases fm
  · rcases hm with rfl | rfl | rfl | rfl | rfl | rfl | rfl
    · exact mat_false_BT709
    · exact mat_false_BT470M
    · exact mat_false_BT470BG
    · exact mat_false_ST170M
    · exact mat_false_ST240M
    · exact mat_false_BT2020NonConstantLuminance
    · exact mat_false_YCgCo
  · rcases hm with rfl | rfl | rfl | rfl | rfl | rfl | rfl
    · exact mat_true_BT709
    · exact mat_true_BT470M
    · exact mat_true_BT470BG
    · exact mat_true_ST170M
    · exact mat_true_ST240M
    · exact mat_true_BT2020NonConstantLuminance
    · exact mat_true_YCgCo

theorem norm_all (bd : Nat) (hbd : bd ∈ depths) : allNormOk bd = true := by
  simp only [depths, List.mem_cons, List.not_mem_nil, or_false] at hbd
  rcases hbd with rfl | rfl | rfl | rfl | rfl | rfl | rfl | rfl | rfl
  · exact norm_8
  · exact norm_9
  · exact norm_10
  · exact norm_11
  · exact norm_12
  · exact norm_13
  · exact norm_14
  · exact norm_15
  · exact norm_16

theorem pow_pos' (bd : Nat) : 0 < 2 ^ bd := Nat.pow_pos (by decide)

theorem lumaSpec_cases (full : Bool) (bd Y : Nat) :
    (lumaSpec full bd Y = ⟨0, 1⟩) ∨ (lumaSpec full bd Y = ⟨1, 1⟩) ∨
    (lumaSpec full bd Y = ⟨lumaN full bd Y, lumaD full bd⟩ ∧ 0 ≤ lumaN full bd Y ∧ lumaN full bd Y ≤ lumaD full bd) := by
  unfold lumaSpec
  split
  · left; rfl
  · split
    · right; left; rfl
    · right; right; exact ⟨rfl, by omega, by omega⟩

theorem chromaSpec_cases (full : Bool) (bd C : Nat) :
    (chromaSpec full bd C = ⟨-1, 2⟩) ∨ (chromaSpec full bd C = ⟨1, 2⟩) ∨
    (chromaSpec full bd C = ⟨chromaN full bd C, chromaD full bd⟩ ∧ -(chromaD full bd : Int) ≤ 2 * chromaN full bd C ∧ 2 * chromaN full bd C ≤ chromaD full bd) := by
  unfold chromaSpec
  split
  · left; rfl
  · split
    · right; left; rfl
    · right; right; exact ⟨rfl, by omega, by omega⟩

theorem den_pos (full : Bool) (bd : Nat) (hbd : bd ∈ depths) : 0 < lumaD full bd ∧ 0 < chromaD full bd := by
  have h8 : 8 ≤ bd := by simp only [depths, List.mem_cons, List.not_mem_nil, or_false] at hbd; omega
  have hp : 0 < 2 ^ (bd - 8) := Nat.pow_pos (by decide)
  have hp2 : 2 ^ 8 ≤ 2 ^ bd := Nat.pow_le_pow_right (by decide) h8
  unfold lumaD chromaD
  cases full <;> simp <;> omega

theorem lumaSpec_den (full : Bool) (bd Y : Nat) (hbd : bd ∈ depths) : 0 < (lumaSpec full bd Y).den := by
  rcases lumaSpec_cases full bd Y with h | h | ⟨h, _, _⟩ <;> rw [h]
  · decide
  · decide
  · exact (den_pos full bd hbd).1

theorem chromaSpec_den (full : Bool) (bd Y : Nat) (hbd : bd ∈ depths) : 0 < (chromaSpec full bd Y).den := by
  rcases chromaSpec_cases full bd Y with h | h | ⟨h, _, _⟩ <;> rw [h]
  · decide
  · decide
  · exact (den_pos full bd hbd).2

theorem lumaSpec_range (full : Bool) (bd Y : Nat) (hbd : bd ∈ depths) : |qR (lumaSpec full bd Y)| ≤ 1 := by
  rcases lumaSpec_cases full bd Y with h | h | ⟨h, h0, h1⟩ <;> rw [h]
  · simp [qR]
  · simp [qR]
  · have hd : (0:ℝ) < (lumaD full bd : ℝ) := by exact_mod_cast (den_pos full bd hbd).1
    unfold qR; dsimp only
    rw [abs_div, abs_of_pos hd, div_le_one hd]
    have h0' : (0:ℝ) ≤ (lumaN full bd Y : ℝ) := by exact_mod_cast h0
    rw [abs_of_nonneg h0']
    exact_mod_cast h1

theorem chromaSpec_range (full : Bool) (bd Y : Nat) (hbd : bd ∈ depths) : |qR (chromaSpec full bd Y)| ≤ 1 / 2 := by
  rcases chromaSpec_cases full bd Y with h | h | ⟨h, h0, h1⟩ <;> rw [h]
  · simp [qR]; norm_num
  · simp [qR]
  · have hd : (0:ℝ) < (chromaD full bd : ℝ) := by exact_mod_cast (den_pos full bd hbd).2
    unfold qR; dsimp only
    rw [abs_div, abs_of_pos hd, div_le_iff₀ hd, abs_le]
    have b1 : (-(chromaD full bd : ℝ)) ≤ 2 * (chromaN full bd Y : ℝ) := by exact_mod_cast h0
    have b2 : 2 * (chromaN full bd Y : ℝ) ≤ (chromaD full bd : ℝ) := by exact_mod_cast h1
    constructor <;> linarith

/-- **C01**: for every standard matrix, both ranges, every depth 8..16, both FMA modes and EVERY code triple (Y,U,V) < 2^bd,
each decoded component is finite and within 3e-6 of the exact H.273 value (exact matrix `decodeSpec m` applied to the exact
normalised codes `lumaSpec`/`chromaSpec`, all exact rationals) -/
theorem decode_close (fm : Bool) (m : MC) (hm : m ∈ std7) (full : Bool) (bd : Nat) (hbd : bd ∈ depths)
    (Y U V : Nat) (hY : Y < 2 ^ bd) (hU : U < 2 ^ bd) (hV : V < 2 ^ bd) :
    ∃ inv s, yuvToRgbMatrix fm m .BT709 = .ok inv ∧ decodeSpec m = some s ∧
      (let p : V3 := ⟨toF32Luma Y (scaleOffset true bd full false).1 (scaleOffset true bd full false).2,
                      toF32Chroma U (scaleOffset true bd full true).1 (scaleOffset true bd full true).2,
                      toF32Chroma V (scaleOffset true bd full true).1 (scaleOffset true bd full true).2⟩
       let o := M3.mulArr fm inv p
       let yn := qR (lumaSpec full bd Y); let un := qR (chromaSpec full bd U); let vn := qR (chromaSpec full bd V)
       (Finite o.x ∧ |toReal o.x - (qR s.r1.a * yn + (qR s.r1.b * un + qR s.r1.c * vn))| ≤ 3 / 1000000) ∧
       (Finite o.y ∧ |toReal o.y - (qR s.r2.a * yn + (qR s.r2.b * un + qR s.r2.c * vn))| ≤ 3 / 1000000) ∧
       (Finite o.z ∧ |toReal o.z - (qR s.r3.a * yn + (qR s.r3.b * un + qR s.r3.c * vn))| ≤ 3 / 1000000)) := by
  have hmat := mat_all fm m hm
  unfold matOk at hmat
  split at hmat
  · rename_i inv s hinv hs
    simp only [Bool.and_eq_true] at hmat
    refine ⟨inv, s, hinv, hs, ?_⟩
    have hn := norm_all bd hbd
    unfold allNormOk at hn
    simp only [Bool.and_eq_true] at hn
    have hnorm : ∀ c, c < 2 ^ bd → normOk bd full c = true := by
      intro c hc; cases full
      · exact CheckGrey.allBelow_spec _ _ hn.2 c hc
      · exact CheckGrey.allBelow_spec _ _ hn.1 c hc
    have fy := hnorm Y hY; have fu := hnorm U hU; have fv := hnorm V hV
    unfold normOk at fy fu fv
    simp only [Bool.and_eq_true] at fy fu fv
    have sy := ratDiffLe_sound _ _ _ _ _ (lumaSpec_den full bd Y hbd) (by norm_num) fy.1
    have su := ratDiffLe_sound _ _ _ _ _ (chromaSpec_den full bd U hbd) (by norm_num) fu.2
    have sv := ratDiffLe_sound _ _ _ _ _ (chromaSpec_den full bd V hbd) (by norm_num) fv.2
    have sy' : F32.Finite _ ∧ |toReal _ - qR (lumaSpec full bd Y)| ≤ 2 / 10000000 := ⟨sy.1, by unfold qR; simpa using sy.2⟩
    have su' : F32.Finite _ ∧ |toReal _ - qR (chromaSpec full bd U)| ≤ 2 / 10000000 := ⟨su.1, by unfold qR; simpa using su.2⟩
    have sv' : F32.Finite _ ∧ |toReal _ - qR (chromaSpec full bd V)| ≤ 2 / 10000000 := ⟨sv.1, by unfold qR; simpa using sv.2⟩
    have ry := lumaSpec_range full bd Y hbd
    have ru := chromaSpec_range full bd U hbd
    have rv := chromaSpec_range full bd V hbd
    dsimp only
    rw [mulArr_rows]
    exact ⟨row_err fm inv.r1 s.r1 _ _ _ _ hmat.1.1 sy' su' sv' ry ru rv,
           row_err fm inv.r2 s.r2 _ _ _ _ hmat.1.2 sy' su' sv' ry ru rv,
           row_err fm inv.r3 s.r3 _ _ _ _ hmat.2 sy' su' sv' ry ru rv⟩
  · simp at hmat


/-! ### through the public API -/
open FrameM FrameP Api in
/-- `Rgb::try_from(&Yuv)` on ANY image the constructor accepted (any size, stride, padding, subsampling, any primaries/transfer
tags) with a standard matrix and depth 8..16 whose visible samples are below 2^bd: the conversion succeeds and output pixel
`(x, y)` - at index `y*w+x` - is within 3e-6 per component of the exact H.273 decode of `Y(x,y)`, `U(x>>ss_x, y>>ss_y)`,
`V(x>>ss_x, y>>ss_y)`. -/
theorem api_decode (B : Build) (yp up vp : Plane) (cfg : Cfg) (ts : Nat) (g : Yuv) (hg : Yuv.new yp up vp cfg ts = .ok (.ok g))
    (hm : g.cfg.matrix ∈ std7) (hbd : g.cfg.bd ∈ depths)
    (hsY : ∀ x y, x < g.y.cfg.width → y < g.y.cfg.height → Plane.sample g.y x y < 2 ^ g.cfg.bd)
    (hsU : ∀ x y, x < g.u.cfg.width → y < g.u.cfg.height → Plane.sample g.u x y < 2 ^ g.cfg.bd)
    (hsV : ∀ x y, x < g.v.cfg.width → y < g.v.cfg.height → Plane.sample g.v x y < 2 ^ g.cfg.bd) :
    ∃ rgb s, yuvToRgb B g = .ok (.ok rgb) ∧ decodeSpec g.cfg.matrix = some s ∧ rgb.data.size = g.y.cfg.width * g.y.cfg.height ∧
      ∀ x y, x < g.y.cfg.width → y < g.y.cfg.height → ∃ o, rgb.data[y * g.y.cfg.width + x]? = some o ∧
        (let yn := qR (lumaSpec g.cfg.full g.cfg.bd (Plane.sample g.y x y))
         let un := qR (chromaSpec g.cfg.full g.cfg.bd (Plane.sample g.u (x >>> g.cfg.ssx) (y >>> g.cfg.ssy)))
         let vn := qR (chromaSpec g.cfg.full g.cfg.bd (Plane.sample g.v (x >>> g.cfg.ssx) (y >>> g.cfg.ssy)))
         |toReal o.x - (qR s.r1.a * yn + (qR s.r1.b * un + qR s.r1.c * vn))| ≤ 3 / 1000000 ∧
         |toReal o.y - (qR s.r2.a * yn + (qR s.r2.b * un + qR s.r2.c * vn))| ≤ 3 / 1000000 ∧
         |toReal o.z - (qR s.r3.a * yn + (qR s.r3.b * un + qR s.r3.c * vn))| ≤ 3 / 1000000) := by
  have hinv := inv_of_new yp up vp cfg ts g hg
  obtain ⟨out, eout, sout, pout⟩ := decode_spec g hinv
  -- the matrix does not depend on the primaries tag for a standard matrix
  have hm14 : g.cfg.matrix ∈ C14.std7 := hm
  have hmat : yuvToRgbMatrix B.fma g.cfg.matrix g.cfg.primaries = yuvToRgbMatrix B.fma g.cfg.matrix .BT709 :=
    (C14.std_matrix_ignores_primaries B.fma g.cfg.matrix hm14 g.cfg.primaries .BT709).2
  obtain ⟨inv, s, hi, hs, _⟩ := decode_close B.fma g.cfg.matrix hm g.cfg.full g.cfg.bd hbd 0 0 0 (pow_pos' _) (pow_pos' _) (pow_pos' _)
  refine ⟨{ data := out.map (M3.mulArr B.fma inv), w := g.y.cfg.width, h := g.y.cfg.height, transfer := g.cfg.transfer, primaries := g.cfg.primaries }, s, ?_, hs, by simp [sout], ?_⟩
  · unfold yuvToRgb; rw [hmat, hi]; simp only [eout, Out.bind]
  · intro x y hx hy
    have hp := pout x y hx hy
    have hcx := shr_lt _ x _ hinv.wdiv hx
    have hcy := shr_lt _ y _ hinv.hdiv hy
    obtain ⟨inv', s', hi', hs', hc⟩ := decode_close B.fma g.cfg.matrix hm g.cfg.full g.cfg.bd hbd
      (Plane.sample g.y x y) (Plane.sample g.u (x >>> g.cfg.ssx) (y >>> g.cfg.ssy)) (Plane.sample g.v (x >>> g.cfg.ssx) (y >>> g.cfg.ssy))
      (hsY x y hx hy) (hsU _ _ (by rw [hinv.uw]; exact hcx) (by rw [hinv.uh]; exact hcy)) (hsV _ _ (by rw [hinv.vw]; exact hcx) (by rw [hinv.vh]; exact hcy))
    rw [hi] at hi'; rw [hs] at hs'
    injection hi' with hi'; injection hs' with hs'
    subst hi' hs'
    refine ⟨M3.mulArr B.fma inv (pixelOf g.y g.u g.v g.cfg.ssx g.cfg.ssy (normPx g.cfg) x y), ?_, ?_⟩
    · simp [Array.getElem?_map, hp]
    · dsimp only at hc ⊢
      exact ⟨hc.1.2, hc.2.1.2, hc.2.2.2⟩

/-! ### the exact matrix is the H.273 definition -/

theorem qR_mul (a b : Q) : qR (a.mul b) = qR a * qR b := by
  unfold qR Q.mul; push_cast; rw [mul_div_mul_comm]
theorem qR_sub (a b : Q) (ha : 0 < a.den) (hb : 0 < b.den) : qR (a.sub b) = qR a - qR b := by
  have ha' : (a.den:ℝ) ≠ 0 := by exact_mod_cast (Nat.pos_iff_ne_zero.mp ha)
  have hb' : (b.den:ℝ) ≠ 0 := by exact_mod_cast (Nat.pos_iff_ne_zero.mp hb)
  unfold qR Q.sub; push_cast; field_simp
theorem qR_neg (a : Q) : qR a.neg = -qR a := by unfold qR Q.neg; push_cast; ring
theorem qR_div (a b : Q) (hb : 0 < b.num) : qR (a.div b) = qR a / qR b := by
  unfold qR Q.div
  have : ((b.num.toNat : ℕ) : ℝ) = (b.num : ℝ) := by
    have : ((b.num.toNat : ℕ) : ℤ) = b.num := by omega
    exact_mod_cast this
  push_cast; rw [this, div_div_div_eq]

/-- the H.273 equations: R = Y + 2(1-Kr)Cr, B = Y + 2(1-Kb)Cb, G = (Y - Kr R - Kb B)/Kg -/
noncomputable def h273 (kr kb y cb cr : ℝ) : ℝ × ℝ × ℝ :=
  let r := y + 2 * (1 - kr) * cr
  let b := y + 2 * (1 - kb) * cb
  (r, (y - kr * r - kb * b) / (1 - kr - kb), b)

/-- for the six Kr/Kb standards, the rows of `decodeSpec` applied to (y, cb, cr) are exactly the H.273 equations -/
theorem decodeSpec_is_h273 (m : MC) (kr kb : Q) (hk : krkb m = some (kr, kb)) (hm : m ≠ .YCgCo)
    (hkr : 0 < kr.den) (hkb : 0 < kb.den) (hkg : 0 < ((⟨1, 1⟩ : Q).sub kr |>.sub kb).num) (y cb cr : ℝ) :
    ∃ s, decodeSpec m = some s ∧
      (qR s.r1.a * y + (qR s.r1.b * cb + qR s.r1.c * cr), qR s.r2.a * y + (qR s.r2.b * cb + qR s.r2.c * cr),
       qR s.r3.a * y + (qR s.r3.b * cb + qR s.r3.c * cr)) = h273 (qR kr) (qR kb) y cb cr := by
  unfold decodeSpec
  simp only [hm, if_false, hk]
  refine ⟨_, rfl, ?_⟩
  have h1 : qR (⟨1, 1⟩ : Q) = 1 := by simp [qR]
  have h0 : qR (⟨0, 1⟩ : Q) = 0 := by simp [qR]
  have h2 : qR (⟨2, 1⟩ : Q) = 2 := by simp [qR]
  have d1 : 0 < ((⟨1, 1⟩ : Q).sub kr).den := by unfold Q.sub; simp; exact hkr
  have hkgR : qR (((⟨1, 1⟩ : Q).sub kr).sub kb) = 1 - qR kr - qR kb := by
    rw [qR_sub _ _ d1 hkb, qR_sub _ _ (by decide) hkr, h1]
  have hpos : (0:ℝ) < 1 - qR kr - qR kb := by
    rw [← hkgR]; unfold qR
    have hd : 0 < (((⟨1, 1⟩ : Q).sub kr).sub kb).den := by unfold Q.sub; simp; exact ⟨hkr, hkb⟩
    exact div_pos (by exact_mod_cast hkg) (by exact_mod_cast hd)
  dsimp only
  have s1 := qR_sub ⟨1, 1⟩ kr (by decide) hkr
  have s2 := qR_sub ⟨1, 1⟩ kb (by decide) hkb
  simp only [qR_neg, qR_div _ _ hkg, qR_mul, hkgR, s1, s2, h1, h0, h2]
  unfold h273
  simp only [Prod.mk.injEq]
  refine ⟨by ring, ?_, by ring⟩
  field_simp
  ring

/-- instances: the hypotheses hold for each of the six Kr/Kb standards (so the theorem is not vacuous), e.g. BT.709 -/
example : ∃ kr kb, krkb .BT709 = some (kr, kb) ∧ 0 < kr.den ∧ 0 < kb.den ∧ 0 < ((⟨1, 1⟩ : Q).sub kr |>.sub kb).num ∧ qR kr = 0.2126 ∧ qR kb = 0.0722 :=
  ⟨_, _, rfl, by decide, by decide, by decide, by norm_num [qR], by norm_num [qR]⟩

end C01
