import Props.C03b
/-! C03, xvYCC on `[0, 1]`: inside the unit interval the curve is the BT.1886 power law applied to `|x|` with the sign
copied back, so the accuracy theorem of the power-law family carries over (for every binary32 of `[0,1]`, either zero). -/
namespace C03
open F32 MathM TransferM Real ExpPoly Horner

theorem abs_lt_sign (r : Nat) (hrw : WF r) : F32.abs r < 2147483648 := by
  unfold F32.abs WF at *
  simp only [consts.2.2.2.2.2.2.2.1]
  split <;> omega

/-- `copysign(r, x)`: magnitude of `r`, sign bit of `x` -/
theorem copysign_val (r x : Nat) (hrw : WF r) (hr : Finite r) :
    Finite (copysign r x) ∧ toReal (copysign r x) = (if signOf x then -1 else 1) * |toReal r| := by
  obtain ⟨ha, hav⟩ := toReal_abs r hrw hr
  have hlt := abs_lt_sign r hrw
  unfold copysign
  cases hb : signOf x
  · have : signBit false = 0 := by simp [signBit]
    rw [this, Nat.add_zero]
    simp only [Bool.false_eq_true, if_false, one_mul]
    exact ⟨ha, hav⟩
  · have hneg : F32.abs r + signBit true = neg (F32.abs r) := by
      unfold neg signBit
      simp only [consts.2.2.2.2.2.2.2.1, if_true]
      split <;> omega
    rw [hneg]
    obtain ⟨hn, hnv⟩ := toReal_neg (F32.abs r) (abs_wf r hrw) ha
    simp only [if_true]
    exact ⟨hn, by rw [hnv, hav]; ring⟩

/-- applying a curve to `|x|` and copying the sign back keeps the accuracy on `[0, 1]` -/
theorem sign_wrap (f : Nat → Out Nat) (γ : ℝ) (hγ : 0 < γ) (hf : CurveWithin f γ) (hwf : ∀ a r, f a = .ok r → WF r) :
    CurveWithin (fun x => (f (F32.abs x)).bind fun r => .ok (copysign r x)) γ := by
  intro x hxw hx h0 h1
  obtain ⟨ha, hav⟩ := toReal_abs x hxw hx
  rw [abs_of_nonneg h0] at hav
  obtain ⟨r, hr1, hr2, hr3⟩ := hf (F32.abs x) (abs_wf x hxw) ha (by rw [hav]; exact h0) (by rw [hav]; exact h1)
  rw [hav] at hr3
  obtain ⟨hc1, hc2⟩ := copysign_val r x (hwf _ _ hr1) hr2
  refine ⟨copysign r x, by simp only [hr1, Out.bind], hc1, ?_⟩
  rw [hc2]
  have hv0 : 0 ≤ (toReal x) ^ γ := Real.rpow_nonneg h0 γ
  by_cases hs : signOf x = true
  · -- negative sign bit with a non-negative value: x is -0
    have hx0 : toReal x = 0 := by
      obtain ⟨n, m, e, hd⟩ := hx
      have hv := toReal_of_decode _ n m e hd
      obtain ⟨s, k, f', hs', hk, hf', rfl⟩ := unpack x hxw
      have hs1 : s = 1 := by
        unfold signOf at hs
        simp only [consts.2.2.2.2.2.2.2.1, decide_eq_true_eq] at hs
        omega
      rw [decode_pack s k f' hs' hk hf'] at hd
      subst hs1
      have hneg : n = true := by
        (repeat' split at hd) <;> simp_all
      rw [hv, hneg] at h0 ⊢
      unfold valR at h0 ⊢
      simp only [if_true] at h0 ⊢
      have : (0:ℝ) ≤ (m:ℝ) * (2:ℝ) ^ e := by positivity
      nlinarith
    rw [hx0, Real.zero_rpow hγ.ne'] at hr3 ⊢
    simp only [hs, if_true]
    simp at hr3 ⊢
    exact hr3
  · simp only [hs, Bool.false_eq_true, if_false, one_mul]
    exact lt_of_le_of_lt (abs_abs_sub_abs_le_abs_sub' (toReal r) ((toReal x) ^ γ) hv0) hr3
where
  abs_abs_sub_abs_le_abs_sub' (a v : ℝ) (hv : 0 ≤ v) : |(|a| - v)| ≤ |a - v| := by
    have := abs_abs_sub_abs_le_abs_sub a v
    rw [abs_of_nonneg hv] at this; exact this


theorem cert_xvycc : finiteB C.xvycc_eotf_f0 = true ∧ ratOf C.xvycc_eotf_f0 = 0 ∧ finiteB C.xvycc_eotf_f1 = true ∧ ratOf C.xvycc_eotf_f1 = 1 ∧
    finiteB C.xvycc_inverse_eotf_f0 = true ∧ ratOf C.xvycc_inverse_eotf_f0 = 0 ∧ finiteB C.xvycc_inverse_eotf_f1 = true ∧ ratOf C.xvycc_inverse_eotf_f1 = 1 ∧
    C.rec_1886_eotf_f1 < 4294967296 ∧ C.rec_1886_inverse_eotf_f1 < 4294967296 := by decide +kernel

theorem in_unit (lo hi x : Nat) (hlo : finiteB lo = true ∧ ratOf lo = 0) (hhi : finiteB hi = true ∧ ratOf hi = 1)
    (hx : Finite x) (h0 : 0 ≤ toReal x) (h1 : toReal x ≤ 1) : inClosed lo hi x = true := by
  obtain ⟨fl, vl⟩ := Exp2.rat_val lo hlo.1
  obtain ⟨fh, vh⟩ := Exp2.rat_val hi hhi.1
  unfold inClosed
  rw [Bool.and_eq_true]
  constructor
  · rw [ge_iff x lo hx fl, vl, hlo.2]; simpa using h0
  · rw [le_iff x hi hx fh, vh, hhi.2]; simpa using h1

section fast
variable (B : Build) (hB : B.fastmath = true)
include hB

theorem xvycc_to_linear : CurveWithin (xvycc_eotf B) (24 / 10) := by
  obtain ⟨a1, a2, a3, a4, _, _, _, _, w1, _⟩ := cert_xvycc
  have hw : ∀ a r, rec_1886_eotf B a = .ok r → WF r := by
    intro a r h; unfold rec_1886_eotf at h
    split at h
    · injection h with h; rw [← h]; exact w1
    · exact powf_wf B hB _ _ _ h
  have key := sign_wrap (rec_1886_eotf B) (24 / 10) (by norm_num) (bt1886_to_linear B hB) hw
  intro x hxw hx h0 h1
  obtain ⟨r, hr1, hr2, hr3⟩ := key x hxw hx h0 h1
  refine ⟨r, ?_, hr2, hr3⟩
  unfold xvycc_eotf
  rw [in_unit _ _ x ⟨a1, a2⟩ ⟨a3, a4⟩ hx h0 h1]
  simpa using hr1

theorem xvycc_to_gamma : CurveWithin (xvycc_inverse_eotf B) (10 / 24) := by
  obtain ⟨_, _, _, _, a1, a2, a3, a4, _, w1⟩ := cert_xvycc
  have hw : ∀ a r, rec_1886_inverse_eotf B a = .ok r → WF r := by
    intro a r h; unfold rec_1886_inverse_eotf at h
    split at h
    · injection h with h; rw [← h]; exact w1
    · exact powf_wf B hB _ _ _ h
  have key := sign_wrap (rec_1886_inverse_eotf B) (10 / 24) (by norm_num) (bt1886_to_gamma B hB) hw
  intro x hxw hx h0 h1
  obtain ⟨r, hr1, hr2, hr3⟩ := key x hxw hx h0 h1
  refine ⟨r, ?_, hr2, hr3⟩
  unfold xvycc_inverse_eotf
  rw [in_unit _ _ x ⟨a1, a2⟩ ⟨a3, a4⟩ hx h0 h1]
  simpa using hr1

/-- **C03, xvYCC through the dispatch** -/
theorem xvycc_curves :
    (∃ f, toLinearFn B .XVYCC = .ok f ∧ CurveWithin f (24 / 10)) ∧ (∃ g, toGammaFn B .XVYCC = .ok g ∧ CurveWithin g (10 / 24)) :=
  ⟨⟨_, rfl, xvycc_to_linear B hB⟩, ⟨_, rfl, xvycc_to_gamma B hB⟩⟩


end fast

/-! ### xvYCC for any build meeting the oracle -/

/-- applying a curve to `|x|` and copying the sign back keeps the accuracy on `[0, 1]` (any bound) -/
theorem sign_wrap_b (f : Nat → Out Nat) (γ ε : ℝ) (hγ : 0 < γ)
    (hf : ∀ x : Nat, WF x → Finite x → 0 ≤ toReal x → toReal x ≤ 1 → ∃ r, f x = .ok r ∧ WF r ∧ Finite r ∧ |toReal r - (toReal x) ^ γ| ≤ ε) :
    CurveWithinB (fun x => (f (F32.abs x)).bind fun r => .ok (copysign r x)) (fun X => X ^ γ) ε := by
  intro x hxw hx h0 h1
  obtain ⟨ha, hav⟩ := toReal_abs x hxw hx
  rw [abs_of_nonneg h0] at hav
  obtain ⟨r, hr1, hrw, hr2, hr3⟩ := hf (F32.abs x) (abs_wf x hxw) ha (by rw [hav]; exact h0) (by rw [hav]; exact h1)
  rw [hav] at hr3
  obtain ⟨hc1, hc2⟩ := copysign_val r x hrw hr2
  refine ⟨copysign r x, by simp only [hr1, Out.bind], hc1, ?_⟩
  simp only
  rw [hc2]
  have hv0 : 0 ≤ (toReal x) ^ γ := Real.rpow_nonneg h0 γ
  by_cases hs : signOf x = true
  · have hx0 : toReal x = 0 := by
      obtain ⟨n, m, e, hd⟩ := hx
      have hv := toReal_of_decode _ n m e hd
      obtain ⟨s, k, f', hs', hk, hf', rfl⟩ := unpack x hxw
      have hs1 : s = 1 := by
        unfold signOf at hs
        simp only [consts.2.2.2.2.2.2.2.1, decide_eq_true_eq] at hs
        omega
      rw [decode_pack s k f' hs' hk hf'] at hd
      subst hs1
      have hneg : n = true := by
        (repeat' split at hd) <;> simp_all
      rw [hv, hneg] at h0 ⊢
      unfold valR at h0 ⊢
      simp only [if_true] at h0 ⊢
      have : (0:ℝ) ≤ (m:ℝ) * (2:ℝ) ^ e := by positivity
      nlinarith
    rw [hx0, Real.zero_rpow hγ.ne'] at hr3 ⊢
    simp only [hs, if_true]
    simp at hr3 ⊢
    exact hr3
  · simp only [hs, Bool.false_eq_true, if_false, one_mul]
    exact le_trans (sign_wrap.abs_abs_sub_abs_le_abs_sub' (toReal r) ((toReal x) ^ γ) hv0) hr3

section oracle
variable (B : Build) (c0 c1 : ℝ) (ho : PowOracle B c0 c1)
include ho

/-- the power branch with the well-formedness of the result -/
theorem pow_branch_ow (thr zero yb : Nat) (γ : ℝ) (hthr : Finite thr ∧ toReal thr = 0)
    (hy : Finite yb) (hyγ : |toReal yb - γ| ≤ 1 / 10 ^ 6) (hγ1 : 35 / 100 ≤ γ) (hγ2 : γ ≤ 3)
    (x : Nat) (hxw : WF x) (hx : Finite x) (h0 : 0 ≤ toReal x) (h1 : toReal x ≤ 1) :
    ∃ r, (if lt x thr then Out.ok zero else powf B x yb) = .ok r ∧ WF r ∧ Finite r ∧ |toReal r - (toReal x) ^ γ| ≤ c0 + c1 * γ := by
  rw [not_lt_zero x thr hx hthr h0]
  simp only [Bool.false_eq_true, if_false]
  exact ho x yb γ hxw hx h0 (by linarith) hy hγ1 hγ2 hyγ

theorem xvycc_to_linear_o : CurveWithinB (xvycc_eotf B) (fun X => X ^ ((24:ℝ) / 10)) (c0 + c1 * (24 / 10)) := by
  obtain ⟨a1, a2, a3, a4, _, _, _, _, _, _⟩ := cert_xvycc
  obtain ⟨z1, z2, _, _, _, _, _, _, _, _, _, _, e1, e2, _⟩ := cert_exponents
  obtain ⟨fy, vy⟩ := near_of _ _ e1 e2
  have key := sign_wrap_b (rec_1886_eotf B) (24 / 10) (c0 + c1 * (24 / 10)) (by norm_num)
    (fun x hxw hx h0 h1 => pow_branch_ow B c0 c1 ho _ _ _ (24 / 10) (zero_of _ z1 z2) fy (by push_cast at vy; exact vy) (by norm_num) (by norm_num) x hxw hx h0 h1)
  intro x hxw hx h0 h1
  obtain ⟨r, hr1, hr2, hr3⟩ := key x hxw hx h0 h1
  refine ⟨r, ?_, hr2, hr3⟩
  unfold xvycc_eotf
  rw [in_unit _ _ x ⟨a1, a2⟩ ⟨a3, a4⟩ hx h0 h1]
  simpa using hr1

theorem xvycc_to_gamma_o : CurveWithinB (xvycc_inverse_eotf B) (fun X => X ^ ((10:ℝ) / 24)) (c0 + c1 * (10 / 24)) := by
  obtain ⟨_, _, _, _, a1, a2, a3, a4, _, _⟩ := cert_xvycc
  obtain ⟨_, _, z1, z2, _, _, _, _, _, _, _, _, _, _, e1, e2, _⟩ := cert_exponents
  obtain ⟨fy, vy⟩ := near_of _ _ e1 e2
  have key := sign_wrap_b (rec_1886_inverse_eotf B) (10 / 24) (c0 + c1 * (10 / 24)) (by norm_num)
    (fun x hxw hx h0 h1 => pow_branch_ow B c0 c1 ho _ _ _ (10 / 24) (zero_of _ z1 z2) fy (by push_cast at vy; exact vy) (by norm_num) (by norm_num) x hxw hx h0 h1)
  intro x hxw hx h0 h1
  obtain ⟨r, hr1, hr2, hr3⟩ := key x hxw hx h0 h1
  refine ⟨r, ?_, hr2, hr3⟩
  unfold xvycc_inverse_eotf
  rw [in_unit _ _ x ⟨a1, a2⟩ ⟨a3, a4⟩ hx h0 h1]
  simpa using hr1

end oracle

end C03
