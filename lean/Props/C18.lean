import Model.Transfer
import Proofs.F32Ops
import Proofs.Cbrt
import Proofs.Expf
import Proofs.ExpfTop
import Proofs.CbrtOdd
import Proofs.CbrtReal
import Mathlib.Data.Nat.Cast.Order.Field
/-! C18 (and the float->int part of C07 / C13): the fast math helpers are total. `exp2` is the only place where the
crates convert a float to an integer without a check; the theorem below shows that, for EVERY 32-bit pattern (NaN,
infinities, subnormals, huge values), the argument of `to_int_unchecked` is finite and within [-128, 129], so the
conversion is defined. Constants are the ones regenerated from the source (`C.exp2_f0..f2`): changing a clamp bound
re-runs these proofs. Accuracy: `cbrtf_accurate` (end of file) proves the cube-root clause for every normal argument of either sign in
relative form (2^-24 + 1e-11, i.e. half an ulp of the unit in the last place plus the residual of two Halley steps); the powf/expf accuracy
clauses (2.5e-4 + 8e-6|y|, 1e-5) and bit-exact oddness are not proved (partial). -/
namespace C18
open F32 MathM Real

/-- `to_int_unchecked` is defined on finite values below 2^31 in magnitude -/
theorem toI32_ok (r : Nat) (hf : Finite r) (hb : |toReal r| < (2:ℝ)^(31:ℤ)) : ∃ i, toI32Unchecked r = .ok i := by
  obtain ⟨n, m, e, h⟩ := hf
  rw [toReal_of_decode _ _ _ _ h, abs_valR] at hb
  unfold toI32Unchecked
  rw [h]
  dsimp only
  have hle : (((if e ≥ 0 then m * 2 ^ e.toNat else m / 2 ^ (-e).toNat : ℕ)) : ℝ) ≤ (m:ℝ) * (2:ℝ)^e := by
    split
    · rename_i he
      push_cast
      rw [← zpow_natCast]
      have : ((e.toNat : ℕ) : ℤ) = e := by omega
      rw [this]
    · rename_i he
      have hk : e = -(((-e).toNat : ℕ) : ℤ) := by omega
      have h2 : (0:ℝ) < (2:ℝ)^((-e).toNat) := by positivity
      calc ((m / 2 ^ (-e).toNat : ℕ) : ℝ) ≤ (m:ℝ) / (2:ℝ)^((-e).toNat) := by
            have := Nat.cast_div_le (α := ℝ) (m := m) (n := 2 ^ (-e).toNat)
            simpa using this
        _ = (m:ℝ) * (2:ℝ)^e := by
            rw [div_eq_mul_inv, ← zpow_natCast, ← zpow_neg]; congr 2; omega
  generalize (if e ≥ 0 then m * 2 ^ e.toNat else m / 2 ^ (-e).toNat) = t at *
  have ht : (t:ℝ) < (2:ℝ)^(31:ℤ) := lt_of_le_of_lt hle hb
  have ht' : t < 2147483648 := by
    have : (2:ℝ)^(31:ℤ) = ((2147483648:ℕ):ℝ) := by norm_num
    rw [this] at ht; exact_mod_cast ht
  have hr : -2147483648 ≤ (if n then -(t:Int) else (t:Int)) ∧ (if n then -(t:Int) else (t:Int)) ≤ 2147483647 := by
    cases n <;> simp <;> omega
  simp only [hr, and_self, if_true]
  exact ⟨_, rfl⟩

/-- the clamp bounds and 0.5 as decoded constants (regenerated from the source) -/
theorem lo_dec : ∃ m e, decode (neg C.exp2_f0) = .fin true m e ∧ (m:ℝ) * (2:ℝ)^e ≤ 127 ∧ 0 < (m:ℝ) * (2:ℝ)^e := by
  refine ⟨16646143, -17, by rfl, ?_, ?_⟩ <;> norm_num
theorem hi_dec : ∃ m e, decode C.exp2_f1 = .fin false m e ∧ (m:ℝ) * (2:ℝ)^e ≤ 129 ∧ 0 < (m:ℝ) * (2:ℝ)^e := by
  refine ⟨8454144, -16, by rfl, ?_, ?_⟩ <;> norm_num
theorem half_dec : ∃ m e, decode C.exp2_f2 = .fin false m e ∧ (m:ℝ) * (2:ℝ)^e = 1/2 := by
  refine ⟨8388608, -24, by rfl, ?_⟩; norm_num

/-- for every bit pattern the clamped argument is finite and lies between the two clamp constants -/
theorem clamp_range (x : Nat) :
    Finite (exp2Clamp x) ∧ -127 ≤ toReal (exp2Clamp x) ∧ toReal (exp2Clamp x) ≤ 129 := by
  obtain ⟨ml, el, hlo, hlov, hlop⟩ := lo_dec
  obtain ⟨mh, eh, hhi, hhiv, hhip⟩ := hi_dec
  have flo : Finite (neg C.exp2_f0) := ⟨_, _, _, hlo⟩
  have fhi : Finite C.exp2_f1 := ⟨_, _, _, hhi⟩
  have tlo : toReal (neg C.exp2_f0) = -((ml:ℝ) * (2:ℝ)^el) := by rw [toReal_of_decode _ _ _ _ hlo]; simp [valR]
  have thi : toReal C.exp2_f1 = (mh:ℝ) * (2:ℝ)^eh := by rw [toReal_of_decode _ _ _ _ hhi]; simp [valR]
  have hlo0 : (0:ℝ) ≤ (ml:ℝ) * (2:ℝ)^el := by positivity
  have hhi0 : (0:ℝ) ≤ (mh:ℝ) * (2:ℝ)^eh := by positivity
  have nlo : isNaN (neg C.exp2_f0) = false := by unfold isNaN; rw [hlo]
  have nhi : isNaN C.exp2_f1 = false := by unfold isNaN; rw [hhi]
  -- first stage: r1 = max x lo is lo, or x itself when x is not NaN and not below lo
  have stage1 : (F32.max x (neg C.exp2_f0) = neg C.exp2_f0) ∨
      (F32.max x (neg C.exp2_f0) = x ∧ ((∃ n m e, decode x = .fin n m e ∧ toReal (neg C.exp2_f0) ≤ toReal x) ∨ decode x = .inf false)) := by
    unfold F32.max
    cases hx : decode x with
    | nan => left; simp [isNaN, hx]
    | inf s =>
      have : isNaN x = false := by simp [isNaN, hx]
      simp only [this, nlo, Bool.false_eq_true, if_false]
      cases s
      · right
        have h1 : lt x (neg C.exp2_f0) = false := by unfold lt; rw [hx, hlo]
        have h2 : lt (neg C.exp2_f0) x = true := by unfold lt; rw [hx, hlo]; rfl
        simp [h1, h2, hx]
      · left
        have h1 : lt x (neg C.exp2_f0) = true := by unfold lt; rw [hx, hlo]
        simp [h1]
    | fin n m e =>
      have fx : Finite x := ⟨_, _, _, hx⟩
      have : isNaN x = false := by simp [isNaN, hx]
      simp only [this, nlo, Bool.false_eq_true, if_false]
      by_cases h1 : lt x (neg C.exp2_f0) = true
      · left; simp [h1]
      · have h1' : ¬ toReal x < toReal (neg C.exp2_f0) := fun h => h1 ((lt_iff _ _ fx flo).mpr h)
        simp only [h1, Bool.false_eq_true, if_false, if_true]
        by_cases h2 : lt (neg C.exp2_f0) x = true
        · right; simp only [h2, Bool.false_eq_true, if_false, if_true]; exact ⟨trivial, Or.inl ⟨n, m, e, rfl, le_of_not_gt h1'⟩⟩
        · simp only [h2, Bool.false_eq_true, if_false, if_true]
          by_cases hs : signOf x = true
          · left; simp only [hs, Bool.false_eq_true, if_false, if_true]
          · right; simp only [hs, Bool.false_eq_true, if_false, if_true]; exact ⟨trivial, Or.inl ⟨n, m, e, rfl, le_of_not_gt h1'⟩⟩
  unfold exp2Clamp
  rcases stage1 with h | ⟨h, hcase⟩
  · -- r1 = lo (finite, below hi)
    rw [h]
    have hlt : lt (neg C.exp2_f0) C.exp2_f1 = true := (lt_iff _ _ flo fhi).mpr (by rw [tlo, thi]; linarith)
    unfold F32.min
    simp only [nlo, nhi, Bool.false_eq_true, if_false, hlt, if_true]
    exact ⟨flo, by rw [tlo]; linarith, by rw [tlo]; linarith⟩
  · rw [h]
    rcases hcase with ⟨n, m, e, hx, hge⟩ | hinf
    · have fx : Finite x := ⟨_, _, _, hx⟩
      have nx : isNaN x = false := by simp [isNaN, hx]
      unfold F32.min
      simp only [nx, nhi, Bool.false_eq_true, if_false]
      by_cases h1 : lt x C.exp2_f1 = true
      · simp only [h1, Bool.false_eq_true, if_false, if_true]
        have := (lt_iff _ _ fx fhi).mp h1
        exact ⟨fx, by rw [tlo] at hge; linarith, by rw [thi] at this; linarith⟩
      · simp only [h1, Bool.false_eq_true, if_false, if_true]
        have h1' : ¬ toReal x < toReal C.exp2_f1 := fun hh => h1 ((lt_iff _ _ fx fhi).mpr hh)
        by_cases h2 : lt C.exp2_f1 x = true
        · simp only [h2, Bool.false_eq_true, if_false, if_true]; exact ⟨fhi, by rw [thi]; linarith, by rw [thi]; linarith⟩
        · simp only [h2, Bool.false_eq_true, if_false, if_true]
          have h2' : ¬ toReal C.exp2_f1 < toReal x := fun hh => h2 ((lt_iff _ _ fhi fx).mpr hh)
          have heq : toReal x = toReal C.exp2_f1 := le_antisymm (le_of_not_gt h2') (le_of_not_gt h1')
          by_cases hs : signOf x = true
          · simp only [hs, Bool.false_eq_true, if_false, if_true]; exact ⟨fx, by rw [heq, thi]; linarith, by rw [heq, thi]; linarith⟩
          · simp only [hs, Bool.false_eq_true, if_false, if_true]; exact ⟨fhi, by rw [thi]; linarith, by rw [thi]; linarith⟩
    · -- x = +inf: min(+inf, hi) = hi
      have nx : isNaN x = false := by simp [isNaN, hinf]
      have h1 : lt x C.exp2_f1 = false := by unfold lt; rw [hinf, hhi]
      have h2 : lt C.exp2_f1 x = true := by unfold lt; rw [hinf, hhi]; rfl
      have hm : F32.min x C.exp2_f1 = C.exp2_f1 := by unfold F32.min; simp [nx, nhi, h1, h2]
      rw [hm]
      exact ⟨fhi, by rw [thi]; linarith, by rw [thi]; linarith⟩

/-- **totality of the unchecked conversion**: for every bit pattern `x` (and both FMA modes) `exp2 x` returns a value;
`to_int_unchecked` never sees NaN, an infinity or a value outside the `i32` range -/
theorem exp2_total (fm : Bool) (x : Nat) : ∃ r, exp2 fm x = .ok r := by
  obtain ⟨fc, hlo, hhi⟩ := clamp_range x
  obtain ⟨mh, eh, hhalf, hhv⟩ := half_dec
  have fh : Finite C.exp2_f2 := ⟨_, _, _, hhalf⟩
  have th : toReal C.exp2_f2 = 1/2 := by rw [toReal_of_decode _ _ _ _ hhalf]; simp [valR, hhv]
  have hwf : WF C.exp2_f2 := by unfold WF; decide
  have hb : |toReal (exp2Clamp x) - toReal C.exp2_f2| ≤ 130 := by rw [th, abs_le]; constructor <;> linarith
  have hfit : |toReal (exp2Clamp x) - toReal C.exp2_f2| < (2:ℝ)^(127:ℤ) := lt_of_le_of_lt hb (by norm_num)
  obtain ⟨fs, hs⟩ := sub_val (exp2Clamp x) C.exp2_f2 hwf fc fh hfit
  have hu : u ≤ 1 := by unfold u; norm_num
  have he : eta ≤ 1 := by unfold eta; norm_num
  have hu0 : 0 ≤ u := by unfold u; positivity
  have habs : |toReal (sub (exp2Clamp x) C.exp2_f2)| ≤ 261 := by
    have h1 := abs_sub_abs_le_abs_sub (toReal (sub (exp2Clamp x) C.exp2_f2)) (toReal (exp2Clamp x) - toReal C.exp2_f2)
    have h2 : u * |toReal (exp2Clamp x) - toReal C.exp2_f2| ≤ 1 * 130 := mul_le_mul hu hb (abs_nonneg _) (by norm_num)
    linarith
  obtain ⟨i, hi⟩ := toI32_ok _ fs (lt_of_le_of_lt habs (by norm_num))
  unfold exp2
  simp only [hi]
  exact ⟨_, rfl⟩

/-- consequently `powf`, `expf` (fastmath on or off) are total on every pair of bit patterns -/
theorem powf_total (B : Build) (x y : Nat) : ∃ r, powf B x y = .ok r := by
  unfold powf powfFast; split
  · exact exp2_total _ _
  · exact ⟨_, rfl⟩

theorem expf_total (B : Build) (x : Nat) : ∃ r, expf B x = .ok r := by
  unfold expf expfFast; split
  · obtain ⟨a, ha⟩ := exp2_total B.fma (floor (mul LOG2_E x))
    obtain ⟨b, hb⟩ := exp2_total B.fma (sub (mul LOG2_E x) (floor (mul LOG2_E x)))
    simp only [ha, hb, Out.bind]; exact ⟨_, rfl⟩
  · exact ⟨_, rfl⟩

end C18

namespace C18
open F32 MathM TransferM

section curves
variable (B : Build)

theorem bindp (a b : Nat) (g : Nat → Out Nat) (hg : ∀ p, ∃ r, g p = .ok r) : ∃ r, (powf B a b).bind g = .ok r := by
  obtain ⟨p, hp⟩ := powf_total B a b; obtain ⟨r, hr⟩ := hg p; exact ⟨r, by rw [hp]; exact hr⟩

theorem t_1886 (y : Nat) : ∃ r, rec_1886_eotf B y = .ok r := by unfold rec_1886_eotf; split; exact ⟨_, rfl⟩; exact powf_total B _ _
theorem t_1886i (y : Nat) : ∃ r, rec_1886_inverse_eotf B y = .ok r := by unfold rec_1886_inverse_eotf; split; exact ⟨_, rfl⟩; exact powf_total B _ _
theorem t_470m (y : Nat) : ∃ r, rec_470m_oetf B y = .ok r := by unfold rec_470m_oetf; split; exact ⟨_, rfl⟩; exact powf_total B _ _
theorem t_470mi (y : Nat) : ∃ r, rec_470m_inverse_oetf B y = .ok r := by unfold rec_470m_inverse_oetf; split; exact ⟨_, rfl⟩; exact powf_total B _ _
theorem t_470bg (y : Nat) : ∃ r, rec_470bg_oetf B y = .ok r := by unfold rec_470bg_oetf; split; exact ⟨_, rfl⟩; exact powf_total B _ _
theorem t_470bgi (y : Nat) : ∃ r, rec_470bg_inverse_oetf B y = .ok r := by unfold rec_470bg_inverse_oetf; split; exact ⟨_, rfl⟩; exact powf_total B _ _
theorem t_log100i (y : Nat) : ∃ r, log100_inverse_oetf B y = .ok r := by unfold log100_inverse_oetf; split; exact ⟨_, rfl⟩; exact powf_total B _ _
theorem t_log316i (y : Nat) : ∃ r, log316_inverse_oetf B y = .ok r := by unfold log316_inverse_oetf; split; exact ⟨_, rfl⟩; exact powf_total B _ _
theorem t_709 (y : Nat) : ∃ r, rec_709_oetf B y = .ok r := by
  unfold rec_709_oetf; dsimp only; split; exact ⟨_, rfl⟩; exact bindp B _ _ _ (fun p => ⟨_, rfl⟩)
theorem t_709i (y : Nat) : ∃ r, rec_709_inverse_oetf B y = .ok r := by
  unfold rec_709_inverse_oetf; dsimp only; split; exact ⟨_, rfl⟩; exact powf_total B _ _
theorem t_xv (y : Nat) : ∃ r, xvycc_eotf B y = .ok r := by
  unfold xvycc_eotf; split
  · obtain ⟨r, hr⟩ := t_1886 B (F32.abs y); exact ⟨_, by rw [hr]; rfl⟩
  · obtain ⟨r, hr⟩ := t_709i B (F32.abs y); exact ⟨_, by rw [hr]; rfl⟩
theorem t_xvi (y : Nat) : ∃ r, xvycc_inverse_eotf B y = .ok r := by
  unfold xvycc_inverse_eotf; split
  · obtain ⟨r, hr⟩ := t_1886i B (F32.abs y); exact ⟨_, by rw [hr]; rfl⟩
  · obtain ⟨r, hr⟩ := t_709 B (F32.abs y); exact ⟨_, by rw [hr]; rfl⟩
theorem t_srgb (y : Nat) : ∃ r, srgb_eotf B y = .ok r := by unfold srgb_eotf; dsimp only; split; exact ⟨_, rfl⟩; exact powf_total B _ _
theorem t_srgbi (y : Nat) : ∃ r, srgb_inverse_eotf B y = .ok r := by
  unfold srgb_inverse_eotf; dsimp only; split; exact ⟨_, rfl⟩; exact bindp B _ _ _ (fun p => ⟨_, rfl⟩)
theorem t_iootf (y : Nat) : ∃ r, inverse_ootf_st2084 B y = .ok r := by
  unfold inverse_ootf_st2084
  obtain ⟨a, ha⟩ := t_1886i B (F32.mul y C.inverse_ootf_st2084_f0)
  obtain ⟨b, hb⟩ := t_709i B a
  refine ⟨F32.div b OOTF, ?_⟩; simp only [ha, hb, Out.bind]
theorem t_ootf (y : Nat) : ∃ r, ootf_st2084 B y = .ok r := by
  unfold ootf_st2084
  obtain ⟨a, ha⟩ := t_709 B (F32.mul y OOTF)
  obtain ⟨b, hb⟩ := t_1886 B a
  refine ⟨F32.div b C.ootf_st2084_f0, ?_⟩; simp only [ha, hb, Out.bind]
theorem t_pqeotf (y : Nat) : ∃ r, st_2084_eotf B y = .ok r := by
  unfold st_2084_eotf; split
  · obtain ⟨p1, h1⟩ := powf_total B y (F32.div C.st_2084_eotf_f1 M2)
    rw [h1]; simp only [Out.bind]; exact powf_total B _ _
  · exact ⟨_, rfl⟩
theorem t_pqieotf (y : Nat) : ∃ r, st_2084_inverse_eotf B y = .ok r := by
  unfold st_2084_inverse_eotf; split
  · obtain ⟨p1, h1⟩ := powf_total B y M1
    rw [h1]; simp only [Out.bind]; exact powf_total B _ _
  · exact ⟨_, rfl⟩
theorem t_pqlin (y : Nat) : ∃ r, st_2084_inverse_oetf B y = .ok r := by
  unfold st_2084_inverse_oetf; obtain ⟨e, he⟩ := t_pqeotf B y; rw [he]; exact t_iootf B e
theorem t_pqgam (y : Nat) : ∃ r, st_2084_oetf B y = .ok r := by
  unfold st_2084_oetf; obtain ⟨e, he⟩ := t_ootf B y; rw [he]; exact t_pqieotf B e
theorem t_hlglin (y : Nat) : ∃ r, arib_b67_inverse_oetf B y = .ok r := by
  unfold arib_b67_inverse_oetf; dsimp only; split; exact ⟨_, rfl⟩
  obtain ⟨e, he⟩ := expf_total B (F32.div (F32.sub (F32.max y C.arib_b67_inverse_oetf_f0) HC) HA); exact ⟨_, by rw [he]; rfl⟩
theorem t_hlggam (y : Nat) : ∃ r, arib_b67_oetf B y = .ok r := by
  unfold arib_b67_oetf; dsimp only; split <;> exact ⟨_, rfl⟩

/-- every scalar transfer curve, in both directions, is total on every bit pattern (the only partial step was `exp2`) -/
theorem curve_total (t : TC) (x : Nat) :
    (∀ f, toLinearFn B t = .ok f → ∃ r, f x = .ok r) ∧ (∀ f, toGammaFn B t = .ok f → ∃ r, f x = .ok r) := by
  constructor
  · intro f hf
    cases t <;> simp only [toLinearFn, Except.ok.injEq, reduceCtorEq] at hf <;> subst hf
    all_goals first
      | exact t_1886 B x | exact t_470m B x | exact t_470bg B x | exact t_log100i B x | exact t_log316i B x | exact t_xv B x
      | exact t_srgb B x | exact t_pqlin B x | exact t_hlglin B x | exact ⟨_, rfl⟩
  · intro f hf
    cases t <;> simp only [toGammaFn, Except.ok.injEq, reduceCtorEq] at hf <;> subst hf
    all_goals first
      | exact t_1886i B x | exact t_470mi B x | exact t_470bgi B x | exact t_xvi B x
      | exact t_srgbi B x | exact t_pqgam B x | exact t_hlggam B x | exact ⟨_, rfl⟩

end curves
end C18

namespace C18
open Real

/-- **cbrtf accuracy** (fastmath build): for every normal binary32 argument of either sign and the real cube root `c` of its
value, the result is finite and `|cbrtf x - c| ≤ (2^-24 + 1e-11) |c|`. Since one ulp of `c` is at least `2^-24 |c|` and at
most `2^-23 |c|`, this is "within 1 ulp" except for `c` within relative 1.7e-4 below a power of two, where it gives 1.0002 ulp
(the final rounding is in fact within half an ulp of the double-precision iterate, which is within 3.4e-12 of `c`).
Kernel-checked: seed analysis over 192 cells (`decide +kernel`) + real analysis of two Halley steps in binary64. -/
theorem cbrtf_accurate (B : Build) (hB : B.fastmath = true) (x : Nat) (hx : Cbrt.Normal x) (c : ℝ) (hc : c ^ 3 = F32.toReal x) :
    F32.Finite (MathM.cbrtf B x) ∧ |F32.toReal (MathM.cbrtf B x) - c| ≤ ((2:ℝ) ^ (-24:ℤ) + 1 / 10 ^ 11) * |c| := by
  have : MathM.cbrtf B x = MathM.cbrtfFast x := by unfold MathM.cbrtf; rw [if_pos hB]
  rw [this]
  exact Cbrt.cbrtf_close x hx c hc

/-- non-vacuity: 8.0 is normal and 2 is its cube root -/
example : Cbrt.Normal 0x41000000 ∧ (2:ℝ) ^ 3 = F32.toReal 0x41000000 := by
  refine ⟨⟨0, 130, 0, by norm_num, by norm_num, by norm_num, by norm_num, by norm_num⟩, ?_⟩
  rw [F32.toReal_of_decode _ false 8388608 (-20) (by rfl)]
  unfold F32.valR; norm_num


/-- **powf accuracy** (fastmath build, both FMA modes): for every positive normal `x`, every finite `y` with `|y| ≤ 80`
whose true result `x^y` lies in `[1e-35, 1e35]`, `powf` returns a finite value with relative error at most
`2.5e-4 + 8e-6 |y|`. Kernel-checked: polynomial certificates for `2^f` (Taylor remainder of `exp`) and `log₂ m`
(atanh series) evaluated on the regenerated coefficients, Horner rounding analysis with computed bounds. -/
theorem powf_accurate (B : Build) (hB : B.fastmath = true) (x y : Nat) (h1 : 8388608 ≤ x) (h2 : x < 2139095040)
    (hy : F32.Finite y) (hy80 : |F32.toReal y| ≤ 80)
    (hv1 : 1 / 10 ^ 35 ≤ (F32.toReal x) ^ (F32.toReal y)) (hv2 : (F32.toReal x) ^ (F32.toReal y) ≤ 10 ^ 35) :
    ∃ r, MathM.powf B x y = .ok r ∧ F32.Finite r ∧
      |F32.toReal r - (F32.toReal x) ^ (F32.toReal y)| ≤ (25 / 10 ^ 5 + (8 / 10 ^ 6) * |F32.toReal y|) * (F32.toReal x) ^ (F32.toReal y) := by
  have : MathM.powf B x y = MathM.powfFast B.fma x y := by unfold MathM.powf; rw [if_pos hB]
  rw [this]
  exact Powf.powf_close B.fma x y h1 h2 hy hy80 hv1 hv2

/-- non-vacuity: `x = 2.0`, `y = 3.0` meet the hypotheses -/
example : 8388608 ≤ 0x40000000 ∧ 0x40000000 < 2139095040 ∧ F32.Finite 0x40400000 ∧ |F32.toReal 0x40400000| ≤ 80 ∧
    1 / 10 ^ 35 ≤ (F32.toReal 0x40000000) ^ (F32.toReal 0x40400000) ∧ (F32.toReal 0x40000000) ^ (F32.toReal 0x40400000) ≤ 10 ^ 35 := by
  have h2 : F32.toReal 0x40000000 = 2 := by
    rw [F32.toReal_of_decode _ false 8388608 (-22) (by rfl)]; unfold F32.valR; norm_num
  have h3 : F32.toReal 0x40400000 = 3 := by
    rw [F32.toReal_of_decode _ false 12582912 (-22) (by rfl)]; unfold F32.valR; norm_num
  refine ⟨by norm_num, by norm_num, ⟨false, 12582912, -22, by rfl⟩, ?_, ?_, ?_⟩
  · rw [h3]; norm_num
  · rw [h2, h3]; norm_num
  · rw [h2, h3]; norm_num

/-- **expf accuracy** (fastmath build, both FMA modes): relative error at most `1e-5` for every finite argument in `[-85, 85]` -/
theorem expf_accurate (B : Build) (hB : B.fastmath = true) (x : Nat) (hx : F32.Finite x) (h : |F32.toReal x| ≤ 85) :
    ∃ r, MathM.expf B x = .ok r ∧ F32.Finite r ∧ |F32.toReal r - Real.exp (F32.toReal x)| ≤ (1 / 10 ^ 5) * Real.exp (F32.toReal x) := by
  have : MathM.expf B x = MathM.expfFast B.fma x := by unfold MathM.expf; rw [if_pos hB]
  rw [this]
  exact Expf.expf_close B.fma x hx h

/-- the building blocks, restated for the audit: `exp2` and `log2` against the real functions -/
theorem exp2_accurate (fm : Bool) (x : Nat) (hx : F32.Finite x) (h : |F32.toReal x| ≤ 124) :
    ∃ r, MathM.exp2 fm x = .ok r ∧ F32.Finite r ∧ |F32.toReal r - (2:ℝ) ^ (F32.toReal x)| ≤ (1734 / 10 ^ 7) * (2:ℝ) ^ (F32.toReal x) :=
  Exp2.exp2_close fm x hx h

theorem log2_accurate (fm : Bool) (x : Nat) (h1 : 8388608 ≤ x) (h2 : x < 2139095040) :
    F32.Finite (MathM.log2 fm x) ∧
    |F32.toReal (MathM.log2 fm x) - Real.logb 2 (F32.toReal x)| ≤ 114 / 10 ^ 7 + (1 / 16777216) * |Real.logb 2 (F32.toReal x)| :=
  Log2.log2_close fm x h1 h2


/-- **expf underflow clause** (fastmath build, both FMA modes): for every finite `x` with `-1e38 ≤ x ≤ -88` the result is a zero
(finite, value 0). The chain: `LOG2_E * x ≤ -126.95`, `floor` gives an integer at most -127 (`FloorL.floor_val`, every finite
argument), `exp2` of it is exactly zero because the clamped value truncates to -127 and the exponent-field construction yields
the bit pattern 0 (`Expf.exp2_zero`), and a product with a zero factor is a zero. -/
theorem expf_underflow (B : Build) (hB : B.fastmath = true) (x : Nat) (hx : F32.Finite x)
    (h1 : -(10:ℝ) ^ 38 ≤ F32.toReal x) (h2 : F32.toReal x ≤ -88) :
    ∃ r, MathM.expf B x = .ok r ∧ F32.Finite r ∧ F32.toReal r = 0 := by
  have : MathM.expf B x = MathM.expfFast B.fma x := by unfold MathM.expf; rw [if_pos hB]
  rw [this]
  exact Expf.expf_lo B.fma x hx h1 h2


/-- **expf, overflow clause**: with fastmath, for every finite `x` with `89 ≤ x ≤ 1e38`, `expf` returns `+inf` (the bit
pattern `0x7f800000`). `LOG2_E * x ≥ 128.39`; `exp2` of its integer part is `+inf` as soon as that part is 129 or more
(the exponent-field construction yields the bit pattern of infinity), and for 128 it is at least `1.99 * 2^127` while the
second factor is at least 1.25, so the product is at least `2^128` and rounds to infinity (`F32.mul_over_pos`). -/
theorem expf_overflow (B : Build) (hB : B.fastmath = true) (x : Nat) (hx : F32.Finite x)
    (h1 : 89 ≤ F32.toReal x) (h2 : F32.toReal x ≤ (10:ℝ) ^ 38) :
    MathM.expf B x = .ok 0x7f800000 := by
  have : MathM.expf B x = MathM.expfFast B.fma x := by unfold MathM.expf; rw [if_pos hB]
  rw [this, Expf.expf_hi B.fma x hx h1 h2]
  rfl


/-- every real has a real cube root -/
theorem exists_cube_root (v : ℝ) : ∃ c : ℝ, c ^ 3 = v := by
  by_cases h : 0 ≤ v
  · exact ⟨Cbrt.cbrtR v, Cbrt.cbrtR_cube_pos v h⟩
  · refine ⟨-Cbrt.cbrtR (-v), ?_⟩
    have := Cbrt.cbrtR_cube_pos (-v) (by linarith)
    rw [Odd.neg_pow (by decide : Odd 3), this]; ring

/-- **cbrtf is odd, bit for bit** (fastmath build): for every normal argument, `cbrtf(-x)` is `cbrtf(x)` with the sign bit
flipped. Structural: the seed keeps the sign bit and every conversion and binary64 operation of the two Newton steps is
sign-symmetric (`Proofs/F32Odd.lean`, `Proofs/CbrtOdd.lean`; all sums add terms of equal sign, so no cancellation to `+0`);
the NaN alternative of `CbrtOdd.cbrtfFast_opp` is excluded by the finiteness part of `cbrtf_accurate`. -/
theorem cbrtf_odd (B : Build) (hB : B.fastmath = true) (x : Nat) (hx : Cbrt.Normal x) :
    MathM.cbrtf B (F32.neg x) = F32.neg (MathM.cbrtf B x) := by
  have e : ∀ y, MathM.cbrtf B y = MathM.cbrtfFast y := by intro y; unfold MathM.cbrtf; rw [if_pos hB]
  rw [e, e]
  have hlt : x < 4294967296 := by
    obtain ⟨s, E, f, hs, hE1, hE2, hf, rfl⟩ := hx; omega
  rcases CbrtOdd.cbrtfFast_opp x hlt with h | ⟨_, h2⟩
  · exact h
  · exfalso
    obtain ⟨c, hc⟩ := exists_cube_root (F32.toReal x)
    obtain ⟨⟨n, m, e', hd⟩, _⟩ := Cbrt.cbrtf_close x hx c hc
    rw [h2, F32.decode_qnan] at hd
    cases hd

end C18
