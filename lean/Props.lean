import Props.C14
import Props.C15
import Props.C12
import Props.C20
import Props.C11
import Props.C07
