import Props.C14
