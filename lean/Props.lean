import Props.C14
import Props.C15
import Props.C12
import Props.C20
