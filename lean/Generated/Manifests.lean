/-! placeholder, rewritten by run/gen_manifests.py -/
