import Check.Grey
import Check.Decode
import Check.Encode
import Check.Prim
import Check.Grey2
