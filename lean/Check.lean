/-! finite checkers evaluated by native_decide (see Check/*.lean) -/
