import Check.Grey
