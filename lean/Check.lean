import Check.Grey
import Check.Decode
