import Model
/-! Line-protocol driver of the executable model: one request per line on stdin, one response per line on stdout.
The Rust harness executes the same request lines on the real crates; run/check.py diffs the two streams.
Usage: driver <fastmath 0|1> <fma 0|1>.  libm is instantiated with Lean's native Float32 functions (glibc). -/
open Mat32 ColorM FrameM PixelM TransferM Api

def f32OfNat (x : Nat) : Float32 := Float32.ofBits x.toUInt32
def natOfF32 (x : Float32) : Nat := x.toBits.toNat

def nativeLibm : Libm where
  ln x := natOfF32 (Float32.log (f32OfNat x))
  log10 x := natOfF32 (Float32.log10 (f32OfNat x))
  powf x y := natOfF32 (Float32.pow (f32OfNat x) (f32OfNat y))
  expf x := natOfF32 (Float32.exp (f32OfNat x))
  cbrt x := natOfF32 (Float32.cbrt (f32OfNat x))

def hexDigit (c : Char) : Option Nat :=
  if '0' ≤ c ∧ c ≤ '9' then some (c.toNat - '0'.toNat)
  else if 'a' ≤ c ∧ c ≤ 'f' then some (c.toNat - 'a'.toNat + 10)
  else if 'A' ≤ c ∧ c ≤ 'F' then some (c.toNat - 'A'.toNat + 10)
  else none
def parseHex (s : String) : Option Nat :=
  if s.isEmpty then none else s.foldl (fun acc c => match acc, hexDigit c with | some a, some d => some (a * 16 + d) | _, _ => none) (some 0)

def hexStr (n width : Nat) : String :=
  let rec go (n k : Nat) (acc : List Char) : List Char :=
    match k with
    | 0 => acc
    | k+1 => go (n / 16) k ((Nat.digitChar (n % 16)) :: acc)
  String.ofList (go n width [])

def canon32 (x : Nat) : Nat := if F32.isNaN x then 0x7fc00000 else x
def canon64 (x : Nat) : Nat := if F64.isNaN x then 0x7ff8000000000000 else x
def h32 (x : Nat) : String := hexStr (canon32 x) 8
def h64 (x : Nat) : String := hexStr (canon64 x) 16

def mcOf (s : String) : Option MC := MC.all.find? (·.name == s)
def cpOf (s : String) : Option CP := CP.all.find? (·.name == s)
def tcOf (s : String) : Option TC := TC.all.find? (·.name == s)

def siteName : Site → String
  | .toInt => "toInt" | .decOut => "decOut" | .decY => "decY" | .decU => "decU" | .decV => "decV"
  | .encIn => "encIn" | .encY => "encY" | .encU => "encU" | .encV => "encV"

/-- splitmix64 finaliser, shared with the Rust harness -/
def mix (x : Nat) : Nat :=
  let m := 18446744073709551616
  let z := (x + 0x9E3779B97F4A7C15) % m
  let z := ((z ^^^ (z >>> 30)) * 0xBF58476D1CE4E5B9) % m
  let z := ((z ^^^ (z >>> 27)) * 0x94D049BB133111EB) % m
  z ^^^ (z >>> 31)

def fnvStep (h x : Nat) : Nat := ((h ^^^ x) * 0x100000001b3) % 18446744073709551616
def fnvInit : Nat := 0xcbf29ce484222325

def specials : Array Nat := #[0x00000000, 0x80000000, 0x3f800000, 0xbf800000, 0x7f800000, 0xff800000, 0x7fc00000, 0x7f61b1e6,
  0xff61b1e6, 0x00000001, 0x80000001, 0x007fffff, 0x3f000000, 0x7f7fffff, 0xff7fffff, 0x3f7fffff, 0x3f800001, 0xbf000000, 0x34000000, 0x40000000]

/-- float sample `idx` of the pseudo-random image `seed`, by kind -/
def genFloat (kind seed idx : Nat) : Nat :=
  let r := mix (seed * 0x100000001 + idx)
  match kind with
  | 0 => F32.div (F32.ofNat (r >>> 40)) 0x4b800000                       -- uniform in [0,1)
  | 1 => (r >>> 32) % 4294967296                                         -- arbitrary bit pattern
  | 2 => specials[r % specials.size]!                                    -- special values
  | 3 => F32.sub (F32.div (F32.ofNat (r >>> 40)) 0x4b000000) 0x3f000000  -- uniform in [-0.5,1.5)
  | _ => if r % 4 == 0 then specials[(r >>> 8) % specials.size]! else F32.div (F32.ofNat (r >>> 40)) 0x4b800000

def genImage (kind seed n : Nat) : Array V3 :=
  (Array.range n).map fun i => ⟨genFloat kind seed (3*i), genFloat kind seed (3*i+1), genFloat kind seed (3*i+2)⟩

structure St where
  B : Build
  mkey : String := ""
  fwd : Except CErr M3 := .error .UnsupportedMatrixCoefficients
  inv : Except CErr M3 := .error .UnsupportedMatrixCoefficients

def outStr {α} (o : Out α) (f : α → String) : String :=
  match o with
  | .ok a => f a
  | .ub s => s!"ub {siteName s}"
  | .panic _ => "panic"

def resStr {α} (o : Res α) (f : α → String) : String :=
  outStr o fun r => match r with
    | .ok a => f a
    | .error e => s!"err {e.name}"

def v3Str (v : V3) : String := s!"{h32 v.x} {h32 v.y} {h32 v.z}"

def mk1x1 (ts bd : Nat) (full : Bool) (m : MC) (t : TC) (p : CP) (Y U V : Nat) : Yuv :=
  let cfg : Cfg := { bd, ssx := 0, ssy := 0, full, matrix := m, transfer := t, primaries := p }
  let pl (v : Nat) : Plane := let q := Plane.new 1 1 0 0 0 0 ts; { q with data := q.data.set! q.origin v }
  { y := pl Y, u := pl U, v := pl V, cfg, ts }

def planeOf (spec : List String) : Option Plane :=
  match spec with
  | ["n", w, h, xd, yd, xp, yp, ts] => some (Plane.new w.toNat! h.toNat! xd.toNat! yd.toNat! xp.toNat! yp.toNat! ts.toNat!)
  | ["r", stride, ah, w, h, xd, yd, xp, yp, xo, yo, len, _] =>
    some { data := Array.replicate len.toNat! 128,
           cfg := { stride := stride.toNat!, allocHeight := ah.toNat!, width := w.toNat!, height := h.toNat!, xdec := xd.toNat!,
                    ydec := yd.toNat!, xpad := xp.toNat!, ypad := yp.toNat!, xorigin := xo.toNat!, yorigin := yo.toNat! } }
  | _ => none

def fillPlane (p : Plane) (seed pi maxv : Nat) : Plane :=
  if maxv = 0 then { p with data := Array.replicate p.data.size 0 } else
  { p with data := (Array.range p.data.size).map fun i => mix (seed * 0x100000001 + pi * 0x1000000 + i) % (maxv + 1) }

def hashV3s (d : Array V3) : Nat :=
  d.foldl (fun h v => fnvStep (fnvStep (fnvStep h (canon32 v.x)) (canon32 v.y)) (canon32 v.z)) fnvInit
def hashNats (h0 : Nat) (d : Array Nat) : Nat := d.foldl fnvStep h0

def cfgStr (c : PlaneCfg) (len : Nat) : String :=
  s!"{c.stride} {c.allocHeight} {c.width} {c.height} {c.xdec} {c.ydec} {c.xpad} {c.ypad} {c.xorigin} {c.yorigin} {len}"

def b01 (s : String) : Bool := s == "1"

/-- parse `TS BD SSX SSY FULL M T P | plane | plane | plane | fill SEED MAXV (poke P I V)*` -/
def parseFrame (parts : List String) : Option (Yuv × Cfg) :=
  match parts with
  | [head, p0, p1, p2, fill] =>
    match head.splitOn " ", fill.splitOn " " with
    | [ts, bd, ssx, ssy, full, m, t, p], ("fill" :: seed :: maxv :: pokes) =>
      match mcOf m, tcOf t, cpOf p, planeOf (p0.splitOn " " ++ [ts]), planeOf (p1.splitOn " " ++ [ts]), planeOf (p2.splitOn " " ++ [ts]) with
      | some m, some t, some p, some a, some b, some c =>
        let fixTs (q : List String) (pl : Plane) : Plane := if q.head? == some "r" then pl else pl
        let a := fillPlane (fixTs [] a) seed.toNat! 0 maxv.toNat!
        let b := fillPlane b seed.toNat! 1 maxv.toNat!
        let c := fillPlane c seed.toNat! 2 maxv.toNat!
        let rec applyPokes (l : List String) (a b c : Plane) : Plane × Plane × Plane :=
          match l with
          | "poke" :: pi :: i :: v :: rest =>
            let (i, v) := (i.toNat!, v.toNat!)
            match pi with
            | "0" => applyPokes rest { a with data := a.data.setIfInBounds i v } b c
            | "1" => applyPokes rest a { b with data := b.data.setIfInBounds i v } c
            | _ => applyPokes rest a b { c with data := c.data.setIfInBounds i v }
          | _ => (a, b, c)
        let (a, b, c) := applyPokes pokes a b c
        let cfg : Cfg := { bd := bd.toNat!, ssx := ssx.toNat!, ssy := ssy.toNat!, full := b01 full, matrix := m, transfer := t, primaries := p }
        some ({ y := a, u := b, v := c, cfg, ts := ts.toNat! }, cfg)
      | _, _, _, _, _, _ => none
    | _, _ => none
  | _ => none

def yuvSummary (y : Yuv) : String :=
  let h := hashNats (hashNats (hashNats fnvInit y.y.data) y.u.data) y.v.data
  s!"ok {y.cfg.matrix.name} {y.cfg.transfer.name} {y.cfg.primaries.name} | {cfgStr y.y.cfg y.y.data.size} | {cfgStr y.u.cfg y.u.data.size} | {cfgStr y.v.cfg y.v.data.size} | {hexStr h 16}"

def m3Of (l : List Nat) : M3 := ⟨⟨l[0]!, l[1]!, l[2]!⟩, ⟨l[3]!, l[4]!, l[5]!⟩, ⟨l[6]!, l[7]!, l[8]!⟩⟩
def m3Str (m : M3) (h : Nat → String) : String :=
  " ".intercalate ([m.r1.x, m.r1.y, m.r1.z, m.r2.x, m.r2.y, m.r2.z, m.r3.x, m.r3.y, m.r3.z].map h)
def m3Of64 (l : List Nat) : Mat64.M3 := ⟨⟨l[0]!, l[1]!, l[2]!⟩, ⟨l[3]!, l[4]!, l[5]!⟩, ⟨l[6]!, l[7]!, l[8]!⟩⟩
def m3Str64 (m : Mat64.M3) : String :=
  " ".intercalate ([m.r1.x, m.r1.y, m.r1.z, m.r2.x, m.r2.y, m.r2.z, m.r3.x, m.r3.y, m.r3.z].map h64)

def matOp (fm : Bool) (op : String) (a : List Nat) : String :=
  match op with
  | "inv" => "ok " ++ m3Str (M3.invert fm (m3Of a)) h32
  | "tr" => "ok " ++ m3Str (M3.transpose (m3Of a)) h32
  | "mulv" => "ok " ++ v3Str (M3.mulArr fm (m3Of a) ⟨a[9]!, a[10]!, a[11]!⟩)
  | "mulm" => "ok " ++ m3Str (M3.mulMat fm (m3Of a) (m3Of (a.drop 9))) h32
  | "idmul" => "ok " ++ m3Str (M3.mulMat fm M3.identity (m3Of a)) h32
  | "mulid" => "ok " ++ m3Str (M3.mulMat fm (m3Of a) M3.identity) h32
  | "cross" => "ok " ++ v3Str (V3.cross fm ⟨a[0]!, a[1]!, a[2]!⟩ ⟨a[3]!, a[4]!, a[5]!⟩)
  | "dot" => "ok " ++ h32 (V3.dot fm ⟨a[0]!, a[1]!, a[2]!⟩ ⟨a[3]!, a[4]!, a[5]!⟩)
  | "sdiv" => "ok " ++ v3Str (V3.sdiv ⟨a[0]!, a[1]!, a[2]!⟩ a[3]!)
  | "cmul" => "ok " ++ v3Str (V3.cmul ⟨a[0]!, a[1]!, a[2]!⟩ ⟨a[3]!, a[4]!, a[5]!⟩)
  | _ => "bad-op"

def v3Str64 (v : Mat64.V3) : String := s!"{h64 v.x} {h64 v.y} {h64 v.z}"
def matOp64 (fm : Bool) (op : String) (a : List Nat) : String :=
  match op with
  | "inv" => "ok " ++ m3Str64 (Mat64.M3.invert fm (m3Of64 a))
  | "tr" => "ok " ++ m3Str64 (Mat64.M3.transpose (m3Of64 a))
  | "mulv" => "ok " ++ v3Str64 (Mat64.M3.mulArr fm (m3Of64 a) ⟨a[9]!, a[10]!, a[11]!⟩)
  | "mulm" => "ok " ++ m3Str64 (Mat64.M3.mulMat fm (m3Of64 a) (m3Of64 (a.drop 9)))
  | "idmul" => "ok " ++ m3Str64 (Mat64.M3.mulMat fm Mat64.M3.identity (m3Of64 a))
  | "mulid" => "ok " ++ m3Str64 (Mat64.M3.mulMat fm (m3Of64 a) Mat64.M3.identity)
  | "cross" => "ok " ++ v3Str64 (Mat64.V3.cross fm ⟨a[0]!, a[1]!, a[2]!⟩ ⟨a[3]!, a[4]!, a[5]!⟩)
  | "dot" => "ok " ++ h64 (Mat64.V3.dot fm ⟨a[0]!, a[1]!, a[2]!⟩ ⟨a[3]!, a[4]!, a[5]!⟩)
  | "sdiv" => "ok " ++ v3Str64 (Mat64.V3.sdiv ⟨a[0]!, a[1]!, a[2]!⟩ a[3]!)
  | "cmul" => "ok " ++ v3Str64 (Mat64.V3.cmul ⟨a[0]!, a[1]!, a[2]!⟩ ⟨a[3]!, a[4]!, a[5]!⟩)
  | _ => "bad-op"

def hexes (l : List String) : Option (List Nat) := l.mapM parseHex

def metaTok {α} (r : Res α) (f : α → String) : String :=
  match r with
  | .ok (.ok a) => "ok:" ++ f a
  | .ok (.error e) => "err:" ++ e.name
  | .ub _ => "ub"
  | .panic _ => "panic"

def constImg (w h : Nat) (v : Nat) : Array V3 := Array.replicate (w*h) ⟨v, v, v⟩

/-- the six single/two-stage conversions on a constant `w x h` image, with the labels each result carries -/
def metaOp (B : Build) (m : MC) (t : TC) (p : CP) (w h : Nat) : String :=
  let cfg : Cfg := { bd := 8, ssx := 0, ssy := 0, full := false, matrix := m, transfer := t, primaries := p }
  let half := 0x3f000000
  let yuvIn : Out (Except YuvErr Yuv) := Yuv.new (Plane.new w h 0 0 0 0 1) (Plane.new w h 0 0 0 0 1) (Plane.new w h 0 0 0 0 1) cfg 1
  let lab (c : Cfg) : String := s!"{c.matrix.name},{c.transfer.name},{c.primaries.name}"
  match yuvIn, Rgb.new (constImg w h half) w h t p with
  | .ok (.ok yuv), .ok rgb =>
    let lin : FImg := { data := constImg w h half, w, h }
    let a := metaTok (yuvToRgb B yuv) fun r => s!"{r.transfer.name},{r.primaries.name}"
    let b := metaTok (rgbToYuv B rgb cfg 1) fun y => lab y.cfg
    let c := metaTok (rgbToLinear B rgb) fun _ => "-"
    let d := metaTok (linearToRgb B lin t p) fun r => s!"{r.transfer.name},{r.primaries.name}"
    let e := metaTok (yuvToLinear B yuv) fun _ => "-"
    let f := metaTok (linearToYuv B lin cfg 1) fun y => lab y.cfg
    let g := metaTok (yuvToXyb B yuv) fun _ => "-"
    let hh := metaTok (xybToYuv B lin cfg 1) fun y => lab y.cfg
    s!"{lab yuv.cfg} {rgb.transfer.name},{rgb.primaries.name} {a} {b} {c} {d} {e} {f} {g} {hh}"
  | _, _ => "setup-failed"

def getMat (st : St) (m : MC) (p : CP) : St :=
  let key := m.name ++ "/" ++ p.name
  if st.mkey == key then st else
    let fwd := rgbToYuvMatrix st.B.fma m p
    { st with mkey := key, fwd, inv := match fwd with | .ok t => .ok (M3.invert st.B.fma t) | .error e => .error e }

def decodeWith (B : Build) (inv : M3) (bd : Nat) (full : Bool) (Y U V : Nat) : V3 :=
  let l := scaleOffset true bd full false
  let c := scaleOffset true bd full true
  M3.mulArr B.fma inv ⟨toF32Luma Y l.1 l.2, toF32Chroma U c.1 c.2, toF32Chroma V c.1 c.2⟩

def encodeWith (B : Build) (fwd : M3) (ts bd : Nat) (full : Bool) (rgb : V3) : Nat × Nat × Nat :=
  let yuv := M3.mulArr B.fma fwd rgb
  let l := scaleOffset false bd full false
  let c := scaleOffset false bd full true
  (fromF32Luma ts yuv.x l.1 l.2 bd, fromF32Chroma ts yuv.y c.1 c.2 bd full, fromF32Chroma ts yuv.z c.1 c.2 bd full)

def step (st : St) (line : String) : St × String :=
  let B := st.B
  let segs := (line.trimAscii.toString.splitOn " | ")
  let toks := (segs.head!.splitOn " ")
  match toks with
  | ["powf", x, y] => match hexes [x, y] with
    | some [x, y] => (st, outStr (MathM.powf B x y) fun r => s!"ok {h32 r}")
    | _ => (st, "bad-op")
  | ["expf", x] => match parseHex x with
    | some x => (st, outStr (MathM.expf B x) fun r => s!"ok {h32 r}")
    | _ => (st, "bad-op")
  | ["cbrtf", x] => match parseHex x with
    | some x => (st, s!"ok {h32 (MathM.cbrtf B x)}")
    | _ => (st, "bad-op")
  | ["tf", dir, t, a, b, c] => match tcOf t, hexes [a, b, c] with
    | some t, some [a, b, c] =>
      let d : Array V3 := #[⟨a, b, c⟩]
      if dir == "lin" then
        match Rgb.new d 1 1 t .BT709 with
        | .ok rgb => (st, resStr (rgbToLinear B rgb) fun l => "ok " ++ v3Str l.data[0]!)
        | .error _ => (st, "bad-op")
      else (st, resStr (linearToRgb B { data := d, w := 1, h := 1 } t .BT709) fun r => "ok " ++ v3Str r.data[0]!)
    | _, _ => (st, "bad-op")
  | ["prim", dir, p, a, b, c] => match cpOf p, hexes [a, b, c] with
    | some p, some [a, b, c] =>
      let d : Array V3 := #[⟨a, b, c⟩]
      if dir == "to709" then
        match Rgb.new d 1 1 .Linear p with
        | .ok rgb => (st, resStr (rgbToLinear B rgb) fun l => "ok " ++ v3Str l.data[0]!)
        | .error _ => (st, "bad-op")
      else (st, resStr (linearToRgb B { data := d, w := 1, h := 1 } .Linear p) fun r => "ok " ++ v3Str r.data[0]!)
    | _, _ => (st, "bad-op")
  | [op, a, b, c] =>
    match hexes [a, b, c] with
    | some [a, b, c] =>
      let img : FImg := { data := #[⟨a, b, c⟩], w := 1, h := 1 }
      match op with
      | "xyb" => (st, "ok " ++ v3Str (linearToXyb B img).data[0]!)
      | "ixyb" => (st, "ok " ++ v3Str (xybToLinear B img).data[0]!)
      | "hsl" => (st, "ok " ++ v3Str (linearToHsl img).data[0]!)
      | "ihsl" => (st, "ok " ++ v3Str (hslToLinear img).data[0]!)
      | _ => (st, "bad-op")
    | _ => (st, "bad-op")
  | ["dec", ts, m, p, full, bd, y, u, v] => match mcOf m, cpOf p with
    | some m, some p =>
      let _ := ts
      let st := getMat st m p
      match st.inv with
      | .ok inv => (st, "ok " ++ v3Str (decodeWith B inv bd.toNat! (b01 full) y.toNat! u.toNat! v.toNat!))
      | .error e => (st, s!"err {e.name}")
    | _, _ => (st, "bad-op")
  | ["enc", ts, m, p, full, bd, r, g, b] => match mcOf m, cpOf p, hexes [r, g, b] with
    | some m, some p, some [r, g, b] =>
      let st := getMat st m p
      match st.fwd with
      | .ok fwd => let (y, u, v) := encodeWith B fwd ts.toNat! bd.toNat! (b01 full) ⟨r, g, b⟩; (st, s!"ok {y} {u} {v}")
      | .error e => (st, s!"err {e.name}")
    | _, _, _ => (st, "bad-op")
  | ["rt", ts, m, p, full, bd, y, u, v] => match mcOf m, cpOf p with
    | some m, some p =>
      let st := getMat st m p
      match st.inv, st.fwd with
      | .ok inv, .ok fwd =>
        let rgb := decodeWith B inv bd.toNat! (b01 full) y.toNat! u.toNat! v.toNat!
        let (y, u, v) := encodeWith B fwd ts.toNat! bd.toNat! (b01 full) rgb
        (st, s!"ok {y} {u} {v}")
      | .error e, _ => (st, s!"err {e.name}")
      | _, .error e => (st, s!"err {e.name}")
    | _, _ => (st, "bad-op")
  | ["y2x2y", ts, m, t, p, full, bd, y, u, v] => match mcOf m, tcOf t, cpOf p with
    | some m, some t, some p =>
      let yuv := mk1x1 ts.toNat! bd.toNat! (b01 full) m t p y.toNat! u.toNat! v.toNat!
      let r := bindRes (yuvToXyb B yuv) fun x => xybToYuv B x yuv.cfg yuv.ts
      (st, resStr r fun o => s!"ok {o.y.data[o.y.origin]!} {o.u.data[o.u.origin]!} {o.v.data[o.v.origin]!}")
    | _, _, _ => (st, "bad-op")
  | ["meta", m, t, p, w, h] => match mcOf m, tcOf t, cpOf p with
    | some m, some t, some p => (st, metaOp B m t p w.toNat! h.toNat!)
    | _, _, _ => (st, "bad-op")
  | ["fnew", kind, len, w, h] =>
    let d : Array V3 := Array.replicate len.toNat! ⟨0, 0, 0⟩
    if kind == "rgb" then
      match Rgb.new d w.toNat! h.toNat! .SRGB .BT709 with
      | .ok r => (st, s!"ok {r.w} {r.h} {r.data.size}")
      | .error _ => (st, "err ResolutionMismatch")
    else
      match FImg.new d w.toNat! h.toNat! with
      | .ok r => (st, s!"ok {r.w} {r.h} {r.data.size}")
      | .error _ => (st, "err ResolutionMismatch")
  | "ynew" :: rest =>
    match parseFrame ((" ".intercalate rest) :: segs.tail!) with
    | some (y, cfg) =>
      (st, outStr (Yuv.new y.y y.u y.v cfg y.ts) fun r => match r with
        | .ok g => s!"ok {g.cfg.matrix.name} {g.cfg.transfer.name} {g.cfg.primaries.name}"
        | .error e => s!"err {e.name}")
    | none => (st, "bad-op")
  | "ydec" :: rest =>
    match parseFrame ((" ".intercalate rest) :: segs.tail!) with
    | some (y, cfg) =>
      match Yuv.new y.y y.u y.v cfg y.ts with
      | .ok (.ok g) => (st, resStr (yuvToRgb B g) fun r => s!"ok {r.w} {r.h} {hexStr (hashV3s r.data) 16}")
      | .ok (.error e) => (st, s!"newerr {e.name}")
      | o => (st, outStr o fun _ => "?")
    | none => (st, "bad-op")
  | ["yenc", ts, bd, ssx, ssy, full, m, p, w, h, seed, kind] => match mcOf m, cpOf p with
    | some m, some p =>
      let (w, h) := (w.toNat!, h.toNat!)
      let cfg : Cfg := { bd := bd.toNat!, ssx := ssx.toNat!, ssy := ssy.toNat!, full := b01 full, matrix := m, transfer := .BT1886, primaries := p }
      match Rgb.new (genImage kind.toNat! seed.toNat! (w*h)) w h .BT1886 p with
      | .ok rgb => (st, resStr (rgbToYuv B rgb cfg ts.toNat!) yuvSummary)
      | .error _ => (st, "bad-op")
    | _, _ => (st, "bad-op")
  | "m32" :: op :: args => match hexes args with
    | some a => (st, matOp B.fma op a)
    | none => (st, "bad-op")
  | "m64" :: op :: args => match hexes args with
    | some a => (st, matOp64 B.fma op a)
    | none => (st, "bad-op")
  | _ => (st, "bad-op")

partial def loop (hin : IO.FS.Stream) (hout : IO.FS.Stream) (st : St) : IO Unit := do
  let line ← hin.getLine
  if line.isEmpty then return ()
  let (st', out) := step st line
  hout.putStrLn out
  loop hin hout st'

def main (args : List String) : IO Unit := do
  let fast := args.getD 0 "1" == "1"
  let fm := args.getD 1 "0" == "1"
  let B : Build := { fastmath := fast, fma := fm, libm := nativeLibm }
  loop (← IO.getStdin) (← IO.getStdout) { B }
