import Proofs.Frame
