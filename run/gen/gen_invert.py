#!/usr/bin/env python3
"""Writes the assembly part of Proofs/F32Invert.lean (the 18 entry-wise applications of the generic lemmas). The output is
appended once to the hand-written lemmas and committed; it is ordinary Lean source checked by the kernel like the rest."""
import sys
idx=[(1,1),(1,2),(1,3),(2,1),(2,2),(2,3),(3,1),(3,2),(3,3)]
fld={1:'x',2:'y',3:'z'}
def s(i,j): return f"m.r{i}.{fld[j]}"
def a(i,j): return f"toReal m.r{i}.{fld[j]}"
minor={(1,1):((2,2),(3,3),(3,2),(2,3)),(1,2):((2,1),(3,3),(3,1),(2,3)),(1,3):((2,1),(3,2),(3,1),(2,2)),
       (2,1):((1,2),(3,3),(3,2),(1,3)),(2,2):((1,1),(3,3),(3,1),(1,3)),(2,3):((1,1),(3,2),(3,1),(1,2)),
       (3,1):((1,2),(2,3),(2,2),(1,3)),(3,2):((1,1),(2,3),(2,1),(1,3)),(3,3):((1,1),(2,2),(2,1),(1,2))}
def mbits(i,j):
    A,B,C,D=minor[(i,j)]
    return f"(mn fm {s(*A)} {s(*B)} {s(*C)} {s(*D)})"
def Mreal_s(i,j):
    A,B,C,D=minor[(i,j)]
    return f"(a{A[0]}{A[1]} * a{B[0]}{B[1]} - a{C[0]}{C[1]} * a{D[0]}{D[1]})"
out=[]
out.append('''
/-- the exact determinant (expansion along the first row, as in the source) -/
noncomputable def detR (m : M3) : ℝ :=
  toReal m.r1.x * (toReal m.r2.y * toReal m.r3.z - toReal m.r3.y * toReal m.r2.z) -
  (toReal m.r1.y * (toReal m.r2.x * toReal m.r3.z - toReal m.r3.x * toReal m.r2.z) -
   toReal m.r1.z * (toReal m.r2.x * toReal m.r3.y - toReal m.r3.x * toReal m.r2.y))

theorem mn_wf (fm : Bool) (a b c d : Nat) : WF (mn fm a b c d) := by unfold mn fmadd; split <;> [exact fma_wf _ _ _; exact add_wf _ _]

/-- both signs of a cofactor entry of the inverse -/
theorem cof (mh d : Nat) (M : ℝ) (hb : Bnd mh (801 / 100)) (hw : WF mh) (he : |toReal mh - M| ≤ 1 / 1000000) (hd : Finite d) (hdl : 4999 / 10000 ≤ |toReal d|) :
    (Bnd (F32.div mh d) (161 / 10) ∧ |toReal (F32.div mh d) - toReal mh / toReal d| ≤ 1 / 1000000) ∧
    (Bnd (F32.div (F32.neg mh) d) (161 / 10) ∧ |toReal (F32.div (F32.neg mh) d) - (-toReal mh) / toReal d| ≤ 1 / 1000000 ∧ |(-toReal mh) - (-M)| ≤ 1 / 1000000) := by
  obtain ⟨fn, tn⟩ := toReal_neg mh hw hb.1
  have bn : Bnd (F32.neg mh) (801 / 100) := ⟨fn, by rw [tn, abs_neg]; exact hb.2⟩
  have e2 := entry_close (F32.neg mh) d bn hd hdl
  rw [tn] at e2
  refine ⟨entry_close mh d hb hd hdl, e2.1, e2.2, ?_⟩
  rw [show -toReal mh - -M = -(toReal mh - M) by ring, abs_neg]; exact he
''')
stmt=[]
for (i,k) in idx:
    d='1' if i==k else '0'
    stmt.append(f"|toReal (M3.mulMat fm m (M3.invert fm m)).r{i}.{fld[k]} - {d}| ≤ 1 / 10000")
for (i,k) in idx:
    d='1' if i==k else '0'
    stmt.append(f"|toReal (M3.mulMat fm (M3.invert fm m) m).r{i}.{fld[k]} - {d}| ≤ 1 / 10000")
out.append("/-- every entry of `A * invert(A)` and of `invert(A) * A` is within 1e-4 of the identity -/\ndef InvClose (fm : Bool) (m : M3) : Prop :=\n    "+" ∧\n    ".join(stmt))
out.append("set_option maxHeartbeats 8000000 in\n/-- **A * invert(A) = I and invert(A) * A = I within 1e-4**, entries of magnitude at most 2, |det| ≥ 1/2 -/\ntheorem invert_close (fm : Bool) (m : M3) (hm : M3.Ok m) (hdet : 1 / 2 ≤ |detR m|) : InvClose fm m := by\n  unfold InvClose")
L=[]
L.append("  obtain ⟨⟨h11, h12, h13⟩, ⟨h21, h22, h23⟩, ⟨h31, h32, h33⟩⟩ := hm")
for (i,j) in idx:
    A,B,C,D=minor[(i,j)]
    L.append(f"  obtain ⟨bm{i}{j}, em{i}{j}⟩ := minor_close fm {s(*A)} {s(*B)} {s(*C)} {s(*D)} h{A[0]}{A[1]} h{B[0]}{B[1]} h{C[0]}{C[1]} h{D[0]}{D[1]}")
L.append(f"  obtain ⟨fd, ed⟩ := det_close fm m.r1.x m.r1.y m.r1.z {mbits(1,1)} {mbits(1,2)} {mbits(1,3)} h11 h12 h13 bm11 bm12 bm13")
for (i,j) in idx:
    L.append(f"  set a{i}{j} := {a(i,j)} with ha{i}{j}")
for (i,j) in idx:
    L.append(f"  set mh{i}{j} := {mbits(i,j)} with hmh{i}{j}")
L.append("  set dh := detOf fm m.r1.x m.r1.y m.r1.z mh11 mh12 mh13 with hdh")
L.append("  have hD : detR m = a11 * (a22 * a33 - a32 * a23) - (a12 * (a21 * a33 - a31 * a23) - a13 * (a21 * a32 - a31 * a22)) := rfl")
L.append("  rw [hD] at hdet")
L.append("  set D := a11 * (a22 * a33 - a32 * a23) - (a12 * (a21 * a33 - a31 * a23) - a13 * (a21 * a32 - a31 * a22)) with hDdef")
L.append('''  have hdD : |toReal dh - D| ≤ 14 / 1000000 := by
    have e : toReal dh - D = (toReal dh - (a11 * toReal mh11 - (a12 * toReal mh12 - a13 * toReal mh13)))
        + (a11 * (toReal mh11 - (a22 * a33 - a32 * a23)) - a12 * (toReal mh12 - (a21 * a33 - a31 * a23)) + a13 * (toReal mh13 - (a21 * a32 - a31 * a22))) := by rw [hDdef]; ring
    rw [e]
    have t1 := abs_add_le (toReal dh - (a11 * toReal mh11 - (a12 * toReal mh12 - a13 * toReal mh13))) (a11 * (toReal mh11 - (a22 * a33 - a32 * a23)) - a12 * (toReal mh12 - (a21 * a33 - a31 * a23)) + a13 * (toReal mh13 - (a21 * a32 - a31 * a22)))
    have t2 := abs_add_le (a11 * (toReal mh11 - (a22 * a33 - a32 * a23)) - a12 * (toReal mh12 - (a21 * a33 - a31 * a23))) (a13 * (toReal mh13 - (a21 * a32 - a31 * a22)))
    have t3 := abs_sub (a11 * (toReal mh11 - (a22 * a33 - a32 * a23))) (a12 * (toReal mh12 - (a21 * a33 - a31 * a23)))
    have m1 : |a11 * (toReal mh11 - (a22 * a33 - a32 * a23))| ≤ 2 * (1 / 1000000) := by rw [abs_mul]; exact mul_le_mul h11.2 em11 (abs_nonneg _) (by norm_num)
    have m2 : |a12 * (toReal mh12 - (a21 * a33 - a31 * a23))| ≤ 2 * (1 / 1000000) := by rw [abs_mul]; exact mul_le_mul h12.2 em12 (abs_nonneg _) (by norm_num)
    have m3 : |a13 * (toReal mh13 - (a21 * a32 - a31 * a22))| ≤ 2 * (1 / 1000000) := by rw [abs_mul]; exact mul_le_mul h13.2 em13 (abs_nonneg _) (by norm_num)
    linarith
  have hdl : 4999 / 10000 ≤ |toReal dh| := by
    have := abs_sub_abs_le_abs_sub D (toReal dh)
    rw [abs_sub_comm D (toReal dh)] at this; linarith''')
for (i,j) in idx:
    L.append(f"  obtain ⟨⟨bp{i}{j}, ep{i}{j}⟩, ⟨bn{i}{j}, en{i}{j}, cn{i}{j}⟩⟩ := cof mh{i}{j} dh _ bm{i}{j} (mn_wf _ _ _ _ _) em{i}{j} fd hdl")
sign={(1,1):1,(1,2):-1,(1,3):1,(2,1):-1,(2,2):1,(2,3):-1,(3,1):1,(3,2):-1,(3,3):1}
def invbits(j,k):
    i2,j2=k,j
    if sign[(i2,j2)]==1: return f"(F32.div mh{i2}{j2} dh)"
    return f"(F32.div (F32.neg mh{i2}{j2}) dh)"
L.append("  have hinv : M3.invert fm m = ⟨⟨%s, %s, %s⟩, ⟨%s, %s, %s⟩, ⟨%s, %s, %s⟩⟩ := rfl" % tuple(invbits(j,k) for (j,k) in idx))
L.append("  rw [hinv]")
def cofinfo(i2,j2):
    if sign[(i2,j2)]==1:
        return (f"bp{i2}{j2}", f"ep{i2}{j2}", f"em{i2}{j2}", f"(toReal mh{i2}{j2})", Mreal_s(i2,j2))
    return (f"bn{i2}{j2}", f"en{i2}{j2}", f"cn{i2}{j2}", f"(-toReal mh{i2}{j2})", "(-"+Mreal_s(i2,j2)+")")
cases=[]
for (i,k) in idx:
    infos=[cofinfo(k,j) for j in (1,2,3)]
    aa=[f"a{i}{j}" for j in (1,2,3)]
    ab=[f"h{i}{j}" for j in (1,2,3)]
    ib=[invbits(j,k) for j in (1,2,3)]
    delta='1' if i==k else '0'
    T='D' if i==k else '0'
    td='Or.inl ⟨rfl, rfl⟩' if i==k else 'Or.inr ⟨rfl, rfl⟩'
    cases.append(f'''  · have hp := prod_core {aa[0]} {aa[1]} {aa[2]} {infos[0][4]} {infos[1][4]} {infos[2][4]} {infos[0][3]} {infos[1][3]} {infos[2][3]}
      (toReal {ib[0]}) (toReal {ib[1]}) (toReal {ib[2]}) D (toReal dh) {T} {delta} {ab[0]}.2 {ab[1]}.2 {ab[2]}.2 {infos[0][2]} {infos[1][2]} {infos[2][2]} hdD hdet {infos[0][1]} {infos[1][1]} {infos[2][1]}
      (by first | ring | (rw [hDdef]; ring)) ({td})
    have hf := dot_big fm m.r{i}.x {ib[0]} m.r{i}.y {ib[1]} m.r{i}.z {ib[2]} 2 (161 / 10) {ab[0]} {infos[0][0]} {ab[1]} {infos[1][0]} {ab[2]} {infos[2][0]} (by norm_num)
    have t := abs_sub_le (toReal (fmadd fm m.r{i}.x {ib[0]} (fmadd fm m.r{i}.y {ib[1]} (F32.mul m.r{i}.z {ib[2]})))) ({aa[0]} * toReal {ib[0]} + ({aa[1]} * toReal {ib[1]} + {aa[2]} * toReal {ib[2]})) {delta}
    show |toReal (fmadd fm m.r{i}.x {ib[0]} (fmadd fm m.r{i}.y {ib[1]} (F32.mul m.r{i}.z {ib[2]}))) - {delta}| ≤ 1 / 10000
    linarith''')
for (i,k) in idx:
    infos=[cofinfo(j,i) for j in (1,2,3)]
    aa=[f"a{j}{k}" for j in (1,2,3)]
    ab=[f"h{j}{k}" for j in (1,2,3)]
    ib=[invbits(i,j) for j in (1,2,3)]
    delta='1' if i==k else '0'
    T='D' if i==k else '0'
    td='Or.inl ⟨rfl, rfl⟩' if i==k else 'Or.inr ⟨rfl, rfl⟩'
    sb=[f"m.r{j}.{fld[k]}" for j in (1,2,3)]
    cases.append(f'''  · have hp := prod_core {aa[0]} {aa[1]} {aa[2]} {infos[0][4]} {infos[1][4]} {infos[2][4]} {infos[0][3]} {infos[1][3]} {infos[2][3]}
      (toReal {ib[0]}) (toReal {ib[1]}) (toReal {ib[2]}) D (toReal dh) {T} {delta} {ab[0]}.2 {ab[1]}.2 {ab[2]}.2 {infos[0][2]} {infos[1][2]} {infos[2][2]} hdD hdet {infos[0][1]} {infos[1][1]} {infos[2][1]}
      (by first | ring | (rw [hDdef]; ring)) ({td})
    have hf := dot_big fm {ib[0]} {sb[0]} {ib[1]} {sb[1]} {ib[2]} {sb[2]} (161 / 10) 2 {infos[0][0]} {ab[0]} {infos[1][0]} {ab[1]} {infos[2][0]} {ab[2]} (by norm_num)
    have t := abs_sub_le (toReal (fmadd fm {ib[0]} {sb[0]} (fmadd fm {ib[1]} {sb[1]} (F32.mul {ib[2]} {sb[2]})))) (toReal {ib[0]} * {aa[0]} + (toReal {ib[1]} * {aa[1]} + toReal {ib[2]} * {aa[2]})) {delta}
    have hc : toReal {ib[0]} * {aa[0]} + (toReal {ib[1]} * {aa[1]} + toReal {ib[2]} * {aa[2]}) = {aa[0]} * toReal {ib[0]} + ({aa[1]} * toReal {ib[1]} + {aa[2]} * toReal {ib[2]}) := by ring
    rw [← hc] at hp
    show |toReal (fmadd fm {ib[0]} {sb[0]} (fmadd fm {ib[1]} {sb[1]} (F32.mul {ib[2]} {sb[2]}))) - {delta}| ≤ 1 / 10000
    linarith''')
L.append("  refine ⟨"+", ".join(["?_"]*18)+"⟩")
sys.stdout.write("\n".join(out)+"\n"+"\n".join(L)+"\n"+"\n".join(cases)+"\n")
