"""Per-property configuration of run/check.py: Lean modules holding the property theorems, evidence level, builds."""

STD_AXIOMS = ['propext', 'Classical.choice', 'Quot.sound']

TRUSTED_BASE = [
    "Lean 4.33 kernel; axioms of each theorem as printed by `#print axioms` (listed per theorem below); theorems whose list contains a `._native.native_decide.ax_*` axiom additionally trust the Lean compiler and runtime",
    "the hand-written Lean model of both crates (lean/Model/*.lean) is tied to /repo by (a) the correspondence check: bit-exact differential comparison of the model driver and the real crates on this run's request stream, (b) the translators: every numeric literal (harness extract -> Generated/Consts.lean) and both Cargo manifests (gen_manifests.py -> Generated/Manifests.lean) are regenerated from the working tree and the theorems re-checked against them",
    "modelled, not verified: rustc/LLVM code generation and the CPU's IEEE-754 conformance (observed on this machine only); glibc libm (logf, log10f; powf/expf/cbrtf when fastmath is off) is a parameter of the model, instantiated in the driver by Lean's native Float32 functions; Vec/Plane allocation; log::warn!; v_frame beyond Plane::new/index/p/iter/data_origin",
    "the real-valued specifications in lean/Props/*.lean (H.273 / BT.2100 / libjxl formulas with exact rationals) are trusted as written",
    "failing-input search (harness search) uses f64 reference implementations; it supports the proof (replays, margins) and never replaces a theorem",
]

FILES = {}
def P(level, modules, explanation, builds=None, builds_thorough=None, partial=None, assumptions=None):
    d = {'level': level, 'modules': modules, 'explanation': explanation, 'builds': builds or ['default'],
         'builds_thorough': builds_thorough or ['default', 'fma', 'checked'], 'partial': partial or [], 'assumptions': assumptions or []}
    return d

PROPS = {
    'C01': P('proof', ['C01'], 'decode = H.273: model-level theorems (see theorems) + bit-exact correspondence of the model with Rgb::try_from(&Yuv) on all 126+14 configurations + f64 oracle search'),
    'C02': P('proof', ['C02'], 'encode rounds to nearest code: theorems + correspondence of Yuv::try_from((&Rgb,cfg)) + exact oracle search'),
    'C03': P('proof', ['C03', 'C03b', 'C03c', 'C03d', 'C03e', 'C03f', 'C03g', 'C03h', 'C03i', 'C03j'], 'transfer curves: identity/alias theorems, anchors by kernel evaluation, accuracy theorems as listed + correspondence on all 19 transfer values + f64 oracle search', partial=['accuracy 2.5e-4 over all floats of [0,1] is PROVED for 13 of the 14 characteristics in both directions: the power-law family (BT.1886 + 4 aliases, BT.470M, BT.470BG), xvYCC, sRGB (against the IEC constants), Log100, Log316, HLG, Linear; the linear->gamma direction of Log100/316 and HLG goes through libm log10 / ln and is proved under the stated 1e-6 accuracy hypothesis on that model parameter; PQ (2.5e-4 / 5.7e-4) is NOT proved (the composition of three powf calls amplifies the certified error bounds beyond the budget): bit-exact correspondence + f64 oracle, exhaustive in the thorough tier']),
    'C04': P('proof', ['C04'], 'XYB forward = opsin definition within 2e-6: theorem for every admissible pixel (fastmath build) + bit-exact correspondence + f64 oracle', partial=['fastmath off: cbrtf is libm (model parameter); correspondence + oracle']),
    'C05': P('proof', ['C05'], 'XYB round trip within 5e-5 on the unit cube: theorem for every pixel (fastmath build) + bit-exact correspondence + f64 oracle', partial=['fastmath off: cbrtf is libm (model parameter); correspondence + oracle']),
    'C06': P('proof', ['C06'], 'primaries conversion: theorems (identical primaries bit-exact, evaluated matrices) + correspondence on all 14 primaries + f64 CIE oracle', partial=['there-and-back within 1e-5 for every pixel: evaluated for white only; correspondence + f64 oracle']),
    'C07': P('proof', ['C07'], 'no UB: loop-safety invariants, constructor invariant, exp2 argument range for every bit pattern + outcome-class correspondence with hook assertions'),
    'C08': P('proof', ['C08'], 'lossless code round trip: theorems + correspondence + exhaustive 8-bit search in the thorough tier'),
    'C09': P('proof', ['C09'], 'YUV->XYB->YUV budget: dims/config theorems, numeric budget partial (see partial) + correspondence + search', partial=['numeric budget max(1,0.015*(2^n-1)): not proved; correspondence + oracle']),
    'C10': P('proof', ['C10', 'C10b', 'C10c', 'C10d', 'C10e', 'C10f', 'C10g'], 'gamma->linear->gamma: theorems as listed + correspondence + search', partial=['round-trip bound over all floats of [0,1] is PROVED for the power-law family (BT.1886 + 4 aliases, BT.470M, BT.470BG), for Log100 and Log316 (libm log10 hypothesis), for HLG (libm ln hypothesis), for sRGB, xvYCC and Linear (C10.roundtrip13: 13 of 14); for PQ it is not proved: correspondence + exhaustive oracle (thorough)']),
    'C11': P('proof', ['C11'], 'pointwise / layout independence: loop invariants over all geometries + correspondence on sizes 1..64 + pointwise search'),
    'C12': P('proof', ['C12'], 'constructors: iff theorems + correspondence on the geometry stream + independent contract oracle'),
    'C13': P('proof', ['C13', 'C13b', 'C13c', 'C13d'], 'totality and code validity: theorems + correspondence on special floats + search in optimised and checked builds', builds=['default', 'checked'], partial=['finite inputs in [0,1]^3 give finite outputs: proved for the transfer stage of 13 of the 14 characteristics (C13.curves_finite, corollary of C03.accuracy; log/HLG linear->gamma under the libm hypotheses) for the whole Rgb -> LinearRgb conversion, every image, 13 characteristics x 11 primaries (C13.rgbToLinear_finite), for LinearRgb -> Xyb, LinearRgb -> Xyb -> LinearRgb and LinearRgb -> Hsl on [0,1] data and for Yuv -> Rgb on every accepted image with a standard matrix (C13d: linearToXyb_finite, xybToLinear_finite, linearToHsl_finite, yuvToRgb_finite); for chains whose intermediate data leave [0,1] and for PQ oracle only; overflow/debug-checked builds: usize arithmetic is modelled on Nat, the checked build is exercised by correspondence + oracle']),
    'C14': P('proof', ['C14'], 'support/error contract decided over all 3276 triples by `decide` on the model + exhaustive correspondence of all triples'),
    'C15': P('proof', ['C15'], 'Unspecified resolution: mpv table for all sizes, label theorems + exhaustive correspondence + content oracle'),
    'C16': P('proof', ['C16'], 'neutral axis and anchors: exhaustive/evaluated theorems + correspondence on every luma code + search'),
    'C17': P('proof', ['C17', 'C17b', 'C17c', 'C17d', 'C17e', 'C17f'], 'HSL: range, accuracy, anchor and round-trip theorems for every pixel of the unit cube + correspondence + f64 hexcone oracle'),
    'C18': P('proof', ['C18'], 'fast math helpers: totality for every bit pattern; accuracy theorems for cbrtf, powf, expf, exp2, log2; expf saturation; bit-exact oddness of cbrtf (all kernel-only) + correspondence + search', partial=['cbrtf accuracy is proved in relative form (2^-24 + 1e-11) for every normal argument, i.e. <= 1 ulp except within 1.7e-4 below a power of two where the bound reads 1.0002 ulp (the oracle checks <= 1 ulp on all 2^32 arguments in the thorough tier)', 'fastmath off: the helpers are libm (model parameter)']),
    'C19': P('proof', ['C19'], '3x3 algebra: structural, accuracy, identity and invert theorems for both formats + correspondence f32/f64 + exact oracle', partial=[]),
    'C20': P('proof', ['C20', 'C20b', 'C20c', 'C20d', 'C20e'], 'build configuration: feature-resolution theorem on the regenerated manifests; every model theorem is stated for both fma values; correspondence and search under four builds',
             builds=['default', 'fma', 'nofast', 'checked'], builds_thorough=['default', 'fma', 'nofast', 'checked']),
}

YUVRGB = ['src/yuv_rgb.rs', 'src/yuv_rgb/color.rs', 'yuvxyb-math/src/matrix.rs', 'yuvxyb-math/src/mul_add.rs', 'src/yuv.rs', 'src/rgb.rs']
TRANSFER = ['src/yuv_rgb/transfer.rs', 'yuvxyb-math/src/pow_exp.rs', 'yuvxyb-math/src/mul_add.rs', 'src/rgb.rs', 'src/linear_rgb.rs']
XYB = ['src/rgb_xyb.rs', 'yuvxyb-math/src/cbrtf.rs', 'src/xyb.rs', 'src/linear_rgb.rs']
ALL = YUVRGB + TRANSFER + XYB + ['src/hsl.rs', 'src/errors.rs']
# source files whose structural change makes the check of a property escalate to the thorough streams
FILES.update({'C01': YUVRGB, 'C02': YUVRGB, 'C03': TRANSFER, 'C04': XYB, 'C05': XYB, 'C06': ['src/yuv_rgb/color.rs', 'yuvxyb-math/src/matrix.rs', 'src/rgb.rs', 'src/linear_rgb.rs'],
              'C07': ALL, 'C08': YUVRGB, 'C09': ALL, 'C10': TRANSFER, 'C11': ALL, 'C12': ['src/yuv.rs', 'src/rgb.rs', 'src/linear_rgb.rs', 'src/xyb.rs', 'src/hsl.rs'],
              'C13': ALL, 'C14': ALL, 'C15': ALL, 'C16': ALL, 'C17': ['src/hsl.rs', 'src/linear_rgb.rs'], 'C18': ['yuvxyb-math/src/pow_exp.rs', 'yuvxyb-math/src/cbrtf.rs', 'yuvxyb-math/src/mul_add.rs'],
              'C19': ['yuvxyb-math/src/matrix.rs', 'yuvxyb-math/src/mul_add.rs'], 'C20': ALL})
