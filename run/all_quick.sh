#!/bin/sh
# runs every quick check on the current tree (what must be done before committing evidence)
cd "$(dirname "$0")/.."
rc=0
for p in C01 C02 C03 C04 C05 C06 C07 C08 C09 C10 C11 C12 C13 C14 C15 C16 C17 C18 C19 C20; do python3 run/check.py $p --tier quick | tail -1 || rc=1; done
exit $rc
