#!/usr/bin/env python3
"""Generates the binary64 versions of the softfloat proof files from the binary32 ones by substituting the format constants
(the F64 model itself is generated from F32.lean the same way by gen64.py)."""
import os, re, sys
root = os.path.join(os.path.dirname(os.path.abspath(__file__)), '..', 'lean', 'Proofs')
SUBS = [
    # order matters: longer / more specific first
    ('4294967296', str(2**64)), ('2147483648', str(2**63)), ('2139095040', str(2047 * 2**52)), ('2143289344', str(2047 * 2**52 + 2**51)),
    ('16777216', str(2**53)), ('8388608', str(2**52)),
]
def conv(txt):
    for a, b in SUBS:
        txt = txt.replace(a, b)
    txt = txt.replace('F32', 'F64').replace('Mat32', 'Mat64')
    # exponent constants
    txt = re.sub(r'(?<![0-9])-149(?![0-9])', '-1074', txt)
    txt = re.sub(r'(?<![0-9])149(?![0-9])', '1074', txt)
    txt = re.sub(r'(?<![0-9])-150(?![0-9])', '-1075', txt)
    txt = re.sub(r'(?<![0-9])150(?![0-9])', '1075', txt)
    txt = re.sub(r'(?<![0-9])127(?![0-9])', '1023', txt)
    txt = re.sub(r'(?<![0-9])126(?![0-9])', '1022', txt)
    txt = re.sub(r'(?<![0-9])-24(?![0-9])', '-53', txt)
    txt = re.sub(r'(?<![0-9])24(?![0-9])', '53', txt)
    txt = re.sub(r'(?<![0-9])23(?![0-9])', '52', txt)
    txt = re.sub(r'(?<![0-9])256(?![0-9])', '2048', txt)
    txt = re.sub(r'(?<![0-9])255(?![0-9])', '2047', txt)
    txt = re.sub(r'(?<![0-9])254(?![0-9])', '2046', txt)
    return txt
for f in sys.argv[1:]:
    src = open(os.path.join(root, f + '.lean')).read()
    out = conv(src)
    out = out + '\n/-! GENERATED from Proofs/%s.lean by run/gen64proofs.py (binary64 instance of the same proof). -/\n' % f
    open(os.path.join(root, f.replace('F32', 'F64') + '.lean'), 'w').write(out)
