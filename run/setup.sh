#!/bin/sh
# Builds everything the checks need from files on disk only (offline): the four harness builds of /repo's working tree,
# the Lean model + driver, and every property theorem (lake build; first Mathlib import takes minutes).
set -e
cd "$(dirname "$0")/.."
export CARGO_NET_OFFLINE=true
python3 run/gen64.py
python3 run/gen64proofs.py F32Core F32Wf F32Real F32Ops F32Approx F32Dot F32Div F32Exact F32Mono F32MonoOps F32Ident F32Invert F32Sign F32Odd
( cd harness && cargo build --offline --release --target-dir target/default )
mkdir -p work
harness/target/default/release/harness extract /repo lean/Generated/Consts.lean work/fingerprints.json
python3 run/gen_manifests.py /repo lean/Generated/Manifests.lean
( cd harness && RUSTFLAGS="-C target-feature=+fma" cargo build --offline --release --target-dir target/fma ) &
( cd harness && cargo build --offline --release --no-default-features --target-dir target/nofast ) &
( cd harness && cargo build --offline --profile checked --target-dir target/checked ) &
( cd lean && lake build driver Model Check Props )
wait
echo setup-done
