#!/bin/sh
# usage: try_mutant.sh <patch.diff> <property ids...>   applies the patch to /repo, runs the quick checks, reverts.
P=$1; shift
cd /verif
git -C /repo apply "$(realpath "$P")" || exit 2
for id in "$@"; do python3 run/check.py $id --tier quick 2>&1 | grep -E "VIOLATION|KNOWN|^C[0-9]+:" ; done
git -C /repo checkout -- .
