#!/bin/sh
# usage: try_mutant.sh <patch.diff> <property ids...>   applies the patch to /repo, runs the quick checks, reverts.
# Evidence and replays written while the patch is applied are kept aside (work/mutant/), never in evidence/.
P=$(realpath "$1"); shift
cd /verif
rm -rf work/evidence.keep && cp -r evidence work/evidence.keep
git -C /repo apply "$P" || exit 2
for id in "$@"; do python3 run/check.py $id --tier quick 2>&1 | grep -E "VIOLATION|KNOWN|^C[0-9]+:" ; done
git -C /repo checkout -- .
mkdir -p work/mutant && cp evidence/*.json work/mutant/ 2>/dev/null
rm -rf evidence && mv work/evidence.keep evidence
# bring the generated Lean files back in line with the reverted tree
( cd harness && cargo build --offline --release --target-dir target/default >/dev/null 2>&1 )
harness/target/default/release/harness extract /repo lean/Generated/Consts.lean work/fingerprints.json
python3 run/gen_manifests.py /repo lean/Generated/Manifests.lean
