#!/bin/sh
# usage: seed_verify.sh <worktree> <outdir> <seed-id>
# Confirms a seeded change: compiles, existing tests unchanged, demo fails with the patch and passes without it;
# then stores it under /verif/seeded/<seed-id>/.
set -u
WT=$1; OUT=$2; ID=$3
# never work on the agent's own OUT directory: `git clean` below would delete it
KEEP=/tmp/seedkeep.$$; rm -rf $KEEP; cp -r "$OUT" $KEEP; OUT=$KEEP
export CARGO_NET_OFFLINE=true
LOC=$(python3 -c "import json;print(json.load(open('$OUT/meta.json')).get('demo_location','tests/demo.rs'))")
cd "$WT" || exit 2
git checkout -q -- . ; git clean -fdq -e target
git apply "$OUT/patch.diff" || { echo "PATCH DOES NOT APPLY"; exit 2; }
mkdir -p "$(dirname "$LOC")"; cp "$OUT/demo.rs" "$LOC"
PKG=""; case "$LOC" in yuvxyb-math/*) PKG="-p yuvxyb-math";; esac
echo "== suite with patch"; cargo test --workspace --offline --no-fail-fast --lib 2>&1 | grep "test result"
echo "== demo with patch (must fail)"; cargo test --offline $PKG --test demo 2>&1 | grep -E "test result|panicked" | head -3
git apply -R "$OUT/patch.diff"
echo "== demo without patch (must pass)"; cargo test --offline $PKG --test demo 2>&1 | grep -E "test result|panicked" | head -3
rm -f "$LOC"; rmdir "$(dirname "$LOC")" 2>/dev/null
mkdir -p /verif/seeded/$ID && cp "$OUT/patch.diff" "$OUT/demo.rs" "$OUT/meta.json" /verif/seeded/$ID/
rm -rf $KEEP
