#!/usr/bin/env python3
"""Orchestrates one property check:  python3 run/check.py Cxx [--tier quick|thorough]  |  --replay <file>
 1. rebuild the harness from /repo's working tree (feature verif-hooks), regenerate lean/Generated/* with the
    translators, lake-build the model, the driver and the property's theorems, audit the axioms;
 2. correspondence: the property's request stream through the real crates and through the Lean driver, diffed;
 3. failing-input search: the property statement tested on the implementation with an independent oracle;
 4. verdict, evidence/<id>.json, replays/, VIOLATION / KNOWN-FINDING lines.  Exit 0 = held, 1 = violation."""
import hashlib, json, os, re, subprocess, sys, time
from concurrent.futures import ThreadPoolExecutor

ROOT = os.path.dirname(os.path.dirname(os.path.abspath(__file__)))
LEAN = os.path.join(ROOT, 'lean')
HARN = os.path.join(ROOT, 'harness')
REPO = '/repo'
WORK = os.path.join(ROOT, 'work')
sys.path.insert(0, os.path.join(ROOT, 'run'))
from props import PROPS, STD_AXIOMS, TRUSTED_BASE, FILES  # noqa: E402
from levels import LEVELS  # noqa: E402

ENV = dict(os.environ, CARGO_NET_OFFLINE='true')

BUILDS = {
    # name: (cargo args, RUSTFLAGS, driver flags fastmath fma)
    'default': (['--release'], '', ('1', '0')),
    'fma': (['--release'], '-C target-feature=+fma', ('1', '1')),
    'nofast': (['--release', '--no-default-features'], '', ('0', '0')),
    'checked': (['--profile', 'checked'], '', ('1', '0')),
}


def sh(cmd, cwd=None, env=None, timeout=None, inp=None):
    p = subprocess.run(cmd, cwd=cwd, env=env or ENV, stdout=subprocess.PIPE, stderr=subprocess.STDOUT, text=True, timeout=timeout, input=inp)
    return p.returncode, p.stdout


def harness_bin(build):
    prof = 'checked' if build == 'checked' else 'release'
    return os.path.join(HARN, 'target', build, prof, 'harness')


def build_harness(build):
    args, rf, _ = BUILDS[build]
    env = dict(ENV)
    if rf:
        env['RUSTFLAGS'] = rf
    # always use the repo's current lock file so the path dependency resolves offline
    try:
        lock = open(os.path.join(REPO, 'Cargo.lock')).read()
        if not os.path.exists(os.path.join(HARN, 'Cargo.lock')):
            open(os.path.join(HARN, 'Cargo.lock'), 'w').write(lock)
    except OSError:
        pass
    rc, out = sh(['cargo', 'build', '--offline', '--target-dir', os.path.join(HARN, 'target', build)] + args, cwd=HARN, env=env)
    return rc == 0, out


def merge_with_baseline(new_text, fp_path):
    """The hand-written model refers to the literals of a source item by position (`<item>_f<i>`). When an item keeps its
    structure, its regenerated literals are used, so a changed constant flows into the model and the theorems are re-checked
    on it. When an item changed STRUCTURALLY (refactored, split, renamed, removed), positional names no longer mean what the
    model assumes: the literals of that item are then frozen at their baseline values (run/Consts.baseline.lean) and the tie
    to the code for that item is carried by the correspondence run alone (which is escalated for structural changes).
    Returns (text, [frozen item names])."""
    try:
        base_fp = json.load(open(os.path.join(ROOT, 'run', 'fingerprints.json')))
        cur_fp = json.load(open(fp_path))
        base_txt = open(os.path.join(ROOT, 'run', 'Consts.baseline.lean')).read()
    except (OSError, ValueError):
        return new_text, []
    items = sorted(base_fp, key=len, reverse=True)
    def item_of(name):
        m = re.match(r'^(.*)_(?:f|i)\d+$', name)
        return m.group(1) if m and m.group(1) in base_fp else None
    frozen = [k for k in base_fp if k not in cur_fp or cur_fp[k]['shape'] != base_fp[k]['shape'] or len(cur_fp[k]['lits']) != len(base_fp[k]['lits'])]
    if not frozen:
        return new_text, []
    fz = set(frozen)
    base_defs = {}
    for line in base_txt.split('\n'):
        m = re.match(r'^def (\w+) : ', line)
        if m:
            base_defs[m.group(1)] = line
    out, seen = [], set()
    for line in new_text.split('\n'):
        m = re.match(r'^def (\w+) : ', line)
        if m:
            it = item_of(m.group(1))
            if it in fz:
                continue            # positional name of a restructured item: baseline value is used instead (below)
            seen.add(m.group(1))
        if line.strip() == 'end C':
            continue
        out.append(line)
    out.append('-- items whose structure differs from the baseline: literals frozen at the baseline values (see run/check.py)')
    for name, line in base_defs.items():
        if item_of(name) in fz and name not in seen:
            out.append(line)
    out.append('end C')
    return '\n'.join(out) + '\n', sorted(frozen)


def regenerate():
    """translators: literals + fingerprints, manifests. Returns (ok, changed_items, log)."""
    os.makedirs(WORK, exist_ok=True)
    tmp_lean = os.path.join(WORK, 'Consts.lean.new')
    fp = os.path.join(WORK, 'fingerprints.json')
    rc, out = sh([harness_bin('default'), 'extract', REPO, tmp_lean, fp])
    if rc != 0:
        return False, [], out
    dst = os.path.join(LEAN, 'Generated', 'Consts.lean')
    new = open(tmp_lean).read()
    new, frozen = merge_with_baseline(new, fp)
    if not os.path.exists(dst) or open(dst).read() != new:
        open(dst, 'w').write(new)
    import gen_manifests
    gen_manifests.main(REPO, os.path.join(LEAN, 'Generated', 'Manifests.lean'))
    subprocess.run([sys.executable, os.path.join(ROOT, 'run', 'gen64.py')], check=True)
    subprocess.run([sys.executable, os.path.join(ROOT, 'run', 'gen64proofs.py'), 'F32Core', 'F32Wf', 'F32Real', 'F32Ops', 'F32Approx', 'F32Dot', 'F32Div', 'F32Exact', 'F32Mono', 'F32MonoOps', 'F32Ident', 'F32Invert', 'F32Sign', 'F32Odd'], check=True)
    changed = []
    try:
        base = json.load(open(os.path.join(ROOT, 'run', 'fingerprints.json')))
        cur = json.load(open(fp))
        for k in sorted(set(base) | set(cur)):
            b, c = base.get(k), cur.get(k)
            if b is None or c is None:
                changed.append({'item': k, 'change': 'added' if b is None else 'removed'})
            elif b['shape'] != c['shape']:
                changed.append({'item': k, 'change': 'structure'})
            elif b['lits'] != c['lits']:
                changed.append({'item': k, 'change': 'constants', 'was': b['lits'], 'now': c['lits']})
    except (OSError, ValueError) as e:
        changed.append({'item': '?', 'change': 'no baseline: %s' % e})
    return True, changed, out


def lake_build(targets):
    rc, out = sh(['lake', 'build'] + targets, cwd=LEAN, timeout=7200)
    return rc == 0, out


def audit(prop):
    """runs Props/Audit/<prop>.lean: one `#print axioms` per property theorem."""
    f = os.path.join(LEAN, 'Props', 'Audit', prop + '.lean')
    if not os.path.exists(f):
        return [], ''
    rc, out = sh(['lake', 'env', 'lean', f], cwd=LEAN, timeout=3600)
    res = []
    for m in re.finditer(r"'([^']+)' (does not depend on any axioms|depends on axioms: \[([^\]]*)\])", out, re.S):
        ax = [a.strip() for a in (m.group(3) or '').replace('\n', ' ').split(',') if a.strip()]
        res.append({'theorem': m.group(1), 'axioms': ax})
    names = re.findall(r'^#print axioms (\S+)', open(f).read(), re.M)
    got = {r['theorem'] for r in res}
    for n in names:
        if n not in got:
            res.append({'theorem': n, 'axioms': None})
    if rc != 0 and not res:
        res.append({'theorem': 'Props.Audit.' + prop, 'axioms': None})
    return res, out


def grep_forbidden():
    bad = []
    for d in ('Model', 'Check', 'Proofs', 'Props'):
        for dp, _, fs in os.walk(os.path.join(LEAN, d)):
            for fn in fs:
                if not fn.endswith('.lean'):
                    continue
                txt = open(os.path.join(dp, fn)).read()
                txt = re.sub(r'/-.*?-/', '', txt, flags=re.S)
                for i, line in enumerate(txt.split('\n')):
                    code = line.split('--')[0]
                    if re.search(r'\bsorry\b|\badmit\b|^\s*axiom\s|implemented_by|\bunsafe\s|maxHeartbeats 0', code):
                        bad.append('%s:%d: %s' % (os.path.join(d, fn), i + 1, line.strip()))
    return bad


LIBM_OPS = re.compile(r'^tf gam (Logarithmic100|Logarithmic316|HybridLogGamma|PerceptualQuantizer) |^y2x2y .* (Logarithmic100|Logarithmic316|HybridLogGamma) ')


def canon_tok(t):
    if re.fullmatch(r'[0-9a-f]{8}', t) and t == '80000000':
        return '00000000'
    if re.fullmatch(r'[0-9a-f]{16}', t) and t == '8000000000000000':
        return '0000000000000000'
    return t


def same_line(req, a, b, nofast):
    """returns (equal, libm_ulp) after canonicalisation (zero sign; 1 ulp on libm-dependent outputs)."""
    if a == b:
        return True, 0
    ta, tb = a.split(' '), b.split(' ')
    if len(ta) != len(tb):
        return False, 0
    if ta and tb and ta[0] == 'ub' and tb[0] == 'ub':
        return True, 0
    libm = nofast or bool(LIBM_OPS.match(req))
    ulp = 0
    for x, y in zip(ta, tb):
        x, y = canon_tok(x), canon_tok(y)
        if x == y:
            continue
        if libm and re.fullmatch(r'[0-9a-f]{8}', x) and re.fullmatch(r'[0-9a-f]{8}', y) and abs(int(x, 16) - int(y, 16)) <= (1 if not nofast else 2):
            ulp += 1
            continue
        if nofast and re.fullmatch(r'[0-9a-f]{8}', x) and re.fullmatch(r'[0-9a-f]{8}', y):
            # libm (powf/expf/cbrtf) is a parameter of the model: Lean's bundled libm and the system's differ by an ulp on some
            # arguments and later operations amplify that; compare values with a small tolerance instead of bits
            import struct
            fa, fb = struct.unpack('>f', bytes.fromhex(x))[0], struct.unpack('>f', bytes.fromhex(y))[0]
            if fa == fb or (fa != fa and fb != fb) or abs(fa - fb) <= 2e-6 * max(1.0, abs(fa)):
                ulp += 1
                continue
        if libm and y2x(req) and x.isdigit() and y.isdigit() and abs(int(x) - int(y)) <= 1:
            ulp += 1
            continue
        return False, 0
    return True, ulp


def y2x(req):
    return req.startswith('y2x2y') or req.startswith('enc') or req.startswith('yenc')


def run_driver(reqs, flags, nproc=16):
    drv = os.path.join(LEAN, '.lake', 'build', 'bin', 'driver')
    n = len(reqs)
    if n == 0:
        return []
    k = max(1, min(nproc, n // 200 + 1))
    # contiguous chunks keep the driver's matrix memo effective
    size = (n + k - 1) // k
    chunks = [reqs[i:i + size] for i in range(0, n, size)]

    def one(ch):
        p = subprocess.run([drv] + list(flags), input='\n'.join(ch) + '\n', stdout=subprocess.PIPE, stderr=subprocess.PIPE, text=True)
        out = p.stdout.split('\n')
        if out and out[-1] == '':
            out.pop()
        if len(out) != len(ch):
            out = out + ['driver-died rc=%d %s' % (p.returncode, p.stderr[-200:].replace('\n', ' '))] * (len(ch) - len(out))
        return out
    with ThreadPoolExecutor(max_workers=k) as ex:
        res = list(ex.map(one, chunks))
    return [l for ch in res for l in ch]


def run_real(reqs, build):
    p = subprocess.run([harness_bin(build), 'run'], input='\n'.join(reqs) + '\n', stdout=subprocess.PIPE, stderr=subprocess.PIPE, text=True)
    out = p.stdout.split('\n')
    if out and out[-1] == '':
        out.pop()
    if len(out) != len(reqs):
        # an abort (not a panic) killed the batch: bisect line by line from the point of death
        res = out[:]
        i = len(out)
        while i < len(reqs):
            q = subprocess.run([harness_bin(build), 'run'], input=reqs[i] + '\n', stdout=subprocess.PIPE, stderr=subprocess.PIPE, text=True)
            o = q.stdout.strip()
            res.append(o if o else 'abort rc=%d' % q.returncode)
            i += 1
            if o:
                rest = run_real(reqs[i:], build) if i < len(reqs) else []
                res.extend(rest)
                break
        return res
    return out


def correspondence(prop, seed, tier, build):
    t = {'quick': 0, 'thorough': 1, 'escalated': 2}[tier]
    rc, out = sh([harness_bin(build), 'gen', prop, str(seed), str(t)])
    reqs = [l for l in out.split('\n') if l]
    corpus = os.path.join(ROOT, 'corpus', prop + '.req')
    if os.path.exists(corpus):
        reqs = [l.strip() for l in open(corpus) if l.strip() and not l.startswith('#')] + reqs
    real = run_real(reqs, build)
    model = run_driver(reqs, BUILDS[build][2])
    nofast = build == 'nofast'
    mism, ulp, dist, distinct, nontriv = [], 0, {}, set(), set()
    for rq, a, b in zip(reqs, real, model):
        eq, u = same_line(rq, a, b, nofast)
        ulp += u
        op = rq.split(' ')[0]
        kind = a.split(' ')[0]
        dist[op + ':' + kind] = dist.get(op + ':' + kind, 0) + 1
        distinct.add(rq)
        if kind in ('ok', 'err', 'newerr') or ' ' in a:
            if a.split(' ')[1:] != rq.split(' ')[-len(a.split(' ')[1:]):]:
                nontriv.add(rq)
        if not eq:
            mism.append({'request': rq, 'real': a, 'model': b})
    return {'build': build, 'requests': len(reqs), 'distinct': len(distinct), 'distinct_nontrivial': len(nontriv), 'mismatches': mism, 'libm_ulp_mismatches': ulp,
            'distribution': dist, 'samples': [{'request': r, 'response': a} for r, a in list(zip(reqs, real))[:: max(1, len(reqs) // 5)][:6]]}


def search(prop, seed, tier, build):
    t = {'quick': 0, 'thorough': 1, 'escalated': 2}[tier]
    p = subprocess.run([harness_bin(build), 'search', prop, str(seed), str(t)], stdout=subprocess.PIPE, stderr=subprocess.PIPE, text=True)
    try:
        d = json.loads(p.stdout)
    except ValueError:
        d = {'evaluated': 0, 'worst': [], 'fails': [{'property': prop, 'what': 'search aborted (process died): rc=%d' % p.returncode, 'input': 'harness search %s %d %d' % (prop, seed, t), 'observed': p.stderr[-300:], 'expected': 'completes'}]}
    d['build'] = build
    return d


def load_known():
    try:
        return json.load(open(os.path.join(ROOT, 'known_findings.json')))
    except (OSError, ValueError):
        return []


def matches_known(prop, fail, known):
    for k in known:
        if k.get('status') == 'known' and k.get('property') == prop and re.search(k['match'], fail.get('input', '') + ' ' + fail.get('what', '')):
            return k
    return None


def write_replay(prop, payload):
    os.makedirs(os.path.join(ROOT, 'replays'), exist_ok=True)
    h = hashlib.sha1(json.dumps(payload, sort_keys=True).encode()).hexdigest()[:10]
    path = os.path.join('replays', '%s-%s.json' % (prop, h))
    json.dump(payload, open(os.path.join(ROOT, path), 'w'), indent=1)
    return path


def check(prop, tier, seed):
    t0 = time.time()
    spec = PROPS[prop]
    builds = spec.get('builds', ['default']) if tier == 'quick' else spec.get('builds_thorough', spec.get('builds', ['default']))
    log, broken, viol_lines = [], [], []
    # 1. build + translate + prove
    okh = True
    for b in dict.fromkeys(['default'] + builds):
        ok, out = build_harness(b)
        if not ok:
            okh = False
            broken.append({'kind': 'harness-build', 'build': b, 'detail': out[-1500:]})
    changed, build_ok, lake_log = [], False, ''
    if os.path.exists(harness_bin('default')) and okh:
        okr, changed, out = regenerate()
        if not okr:
            broken.append({'kind': 'translator', 'detail': out[-1500:]})
    targets = ['driver'] + ['Props.' + m for m in spec.get('modules', []) if os.path.exists(os.path.join(LEAN, 'Props', m + '.lean'))]
    build_ok, lake_log = lake_build(targets)
    if not build_ok:
        failed = re.findall(r'^error: (.*)$|✖ \[\d+/\d+\] (?:Building|Running) (\S+)', lake_log, re.M)
        mods = sorted({m for _, m in failed if m})
        broken.append({'kind': 'lake-build', 'failed_modules': mods, 'detail': lake_log[-3000:]})
        # the driver may still be buildable even when a theorem fails
        lake_build(['driver'])
    aud, aud_log = audit(prop) if build_ok else ([], '')
    allowed = set(STD_AXIOMS)
    obligations = len(aud)
    discharged = 0
    for a in aud:
        extra = None if a['axioms'] is None else [x for x in a['axioms'] if x not in allowed and not re.search(r'\._native\.native_decide\.ax_', x)]
        a['native'] = [] if a['axioms'] is None else [x for x in a['axioms'] if re.search(r'\._native\.native_decide\.ax_', x)]
        if a['axioms'] is not None and not extra:
            discharged += 1
        else:
            broken.append({'kind': 'theorem', 'theorem': a['theorem'], 'detail': 'not proved' if a['axioms'] is None else 'unexpected axioms %s' % extra})
    forb = grep_forbidden()
    if forb:
        broken.append({'kind': 'forbidden-construct', 'detail': forb[:10]})
    # thorough tier: the toolchain's independent re-checker replays the compiled declarations of the property's modules
    # (and of everything they import) in a fresh kernel
    rechecked = None
    if tier == 'thorough' and build_ok:
        mods = ['Props.' + m for m in spec.get('modules', []) if os.path.exists(os.path.join(LEAN, 'Props', m + '.lean'))]
        rc, out = sh(['lake', 'env', 'leanchecker'] + mods, cwd=LEAN, timeout=7200)
        rechecked = {'cmd': 'lake env leanchecker ' + ' '.join(mods), 'ok': rc == 0, 'output_tail': out[-400:]}
        if rc != 0:
            broken.append({'kind': 'leanchecker', 'detail': out[-1500:]})
    # a structural change (not a mere constant) of a function this property depends on: the hand-written model may be stale,
    # so the correspondence and the search run on their thorough streams even in the quick tier
    try:
        fpcur = json.load(open(os.path.join(WORK, 'fingerprints.json')))
    except (OSError, ValueError):
        fpcur = {}
    escal = [c for c in changed if c['change'] != 'constants' and (fpcur.get(c['item'], {}).get('file') in FILES.get(prop, []) or c['change'] in ('removed',) or c['item'] == '?')]
    run_tier = 'escalated' if (escal and prop != 'C20' and tier == 'quick') else tier
    # 2. correspondence, 3. search
    corr, srch = [], []
    drv_ok = os.path.exists(os.path.join(LEAN, '.lake', 'build', 'bin', 'driver'))
    for b in builds:
        if not os.path.exists(harness_bin(b)):
            continue
        if drv_ok:
            c = correspondence(prop, seed, run_tier, b)
            corr.append(c)
            if c['mismatches']:
                broken.append({'kind': 'correspondence', 'build': b, 'count': len(c['mismatches']), 'first': c['mismatches'][:5]})
        srch.append(search(prop, seed, run_tier, b))
    # 4. verdict
    known = load_known()
    fails = [dict(f, build=s['build']) for s in srch for f in s['fails']]
    new_fails, known_hits = [], {}
    for f in fails:
        k = matches_known(prop, f, known)
        if k:
            known_hits[k['id']] = k
        else:
            new_fails.append(f)
    for k in known_hits.values():
        print('KNOWN-FINDING: property=%s %s' % (prop, k['what']))
    violations = 0
    if new_fails:
        path = write_replay(prop, {'property': prop, 'kind': 'failing-input', 'seed': seed, 'tier': tier, 'failing_inputs': new_fails[:20],
                                   'model_vs_code': [b for b in broken if b['kind'] == 'correspondence'], 'proof_breaks': [b for b in broken if b['kind'] != 'correspondence'],
                                   'changed_items': changed, 'replay': 'python3 run/check.py --replay <this file>'})
        print('VIOLATION property=%s replay=%s' % (prop, path))
        violations += 1
    elif broken:
        path = write_replay(prop, {'property': prop, 'kind': 'no-failing-input-found', 'seed': seed, 'tier': tier, 'no_longer_checks': broken, 'changed_items': changed,
                                   'searched': [{'build': s['build'], 'evaluated': s['evaluated']} for s in srch]})
        print('VIOLATION property=%s replay=%s no-failing-input-found' % (prop, path))
        violations += 1
    wall = time.time() - t0
    evaluations = sum(c['requests'] for c in corr) + sum(s['evaluated'] for s in srch)
    nontriv = sum(c['distinct_nontrivial'] for c in corr)
    level = LEVELS[prop]['category']
    if level == 'proof' and obligations == 0:
        level = 'other'
    cov = {
        'obligations': obligations, 'discharged': discharged,
        'checker_cmd': 'cd lean && lake build %s && lake env lean Props/Audit/%s.lean' % (' '.join(targets), prop),
        'trusted_base': TRUSTED_BASE + ['axioms per theorem: ' + '; '.join('%s: %s' % (a['theorem'], ','.join(a['axioms']) if a['axioms'] is not None else 'NOT PROVED') for a in aud)],
        'theorems': aud,
        'explanation': spec['explanation'],
        'evaluations': evaluations, 'distinct_nontrivial': nontriv,
        'rule': 'correspondence: request lines of the property stream (run/README in DESIGN 4.1) executed on the real crates and on the Lean model, compared bit for bit; '
                'a request is non-trivial when its response is not an echo of its arguments; distinct = distinct request lines. search: property oracle evaluations on the implementation.',
        'samples': [s for c in corr for s in c['samples']][:8] or [{'note': 'no correspondence run'}],
        'correspondence': [{k: v for k, v in c.items() if k not in ('mismatches', 'samples')} | {'mismatch_count': len(c['mismatches'])} for c in corr],
        'search': [{'build': s['build'], 'evaluated': s['evaluated'], 'worst': s['worst'], 'fails': len(s['fails'])} for s in srch],
        'source_changes_vs_baseline_fingerprints': changed,
        'libm_identical': all(c['libm_ulp_mismatches'] == 0 for c in corr),
        'builds': builds, 'escalated_to_thorough_streams_because_of': escal,
        'partial': spec.get('partial', []),
        'independent_recheck': rechecked if rechecked is not None else 'leanchecker runs in the thorough tier only',
    }
    if obligations == 0:
        for k in ('obligations', 'discharged'):
            cov.pop(k)
    ev = {'property_id': prop, 'tier': tier, 'seed': seed, 'level': level, 'coverage': cov, 'assumptions': spec.get('assumptions', []) + TRUSTED_BASE[:3],
          'wall_s': round(wall, 2), 'violations': violations}
    os.makedirs(os.path.join(ROOT, 'evidence'), exist_ok=True)
    json.dump(ev, open(os.path.join(ROOT, 'evidence', prop + '.json'), 'w'), indent=1)
    print('%s: theorems %d/%d, correspondence %s, search %s, %.1fs' % (
        prop, discharged, obligations, ', '.join('%s %d req %d mismatch' % (c['build'], c['requests'], len(c['mismatches'])) for c in corr),
        ', '.join('%s %d eval %d fail' % (s['build'], s['evaluated'], len(s['fails'])) for s in srch), wall))
    return 1 if violations else 0


def replay(path):
    d = json.load(open(path if os.path.isabs(path) else os.path.join(ROOT, path)))
    build_harness('default')
    print(json.dumps({k: d[k] for k in d if k in ('property', 'kind')}))
    lines = [f['input'] for f in d.get('failing_inputs', []) if re.match(r'^[a-z0-9]+ ', f['input'])]
    lines += [m['request'] for b in d.get('no_longer_checks', []) + d.get('model_vs_code', []) if b.get('kind') == 'correspondence' for m in b.get('first', [])]
    if lines:
        real = run_real(lines, 'default')
        # the model is per pixel: a layout suffix (` L<mode> <index>`, multi-row frame in the real run) is dropped for it
        model = run_driver([re.sub(r' (L[1-4] \d+|S \d+ \d+ \d+)$', '', l) for l in lines], ('1', '0')) if os.path.exists(os.path.join(LEAN, '.lake', 'build', 'bin', 'driver')) else ['?'] * len(lines)
        for l, a, b in zip(lines, real, model):
            print('request: %s\n   real : %s\n   model: %s' % (l, a, b))
    for f in d.get('failing_inputs', []):
        print('failing input: %s | observed %s | expected %s | %s' % (f['input'], f['observed'], f['expected'], f['what']))
    for b in d.get('no_longer_checks', []):
        print('no longer checks: %s' % json.dumps(b)[:600])
    return 0


def main():
    a = sys.argv[1:]
    if a and a[0] == '--replay':
        sys.exit(replay(a[1]))
    prop = a[0]
    tier = os.environ.get('VERIF_TIER', 'quick')
    if '--tier' in a:
        tier = a[a.index('--tier') + 1]
    seed = int(os.environ.get('VERIF_SEED', '1'))
    sys.exit(check(prop, tier, seed))


if __name__ == '__main__':
    main()
