"""MANIFEST level texts per property; updated as theorems land (category 'proof' only where the deciding theorems are proved)."""
from props import PROPS
NOTE = ("Trusted: Lean kernel (+ compiler for native_decide theorems, listed in evidence), the hand-written model tied to /repo by the bit-exact "
        "correspondence run and the literal/manifest translators, rustc/CPU IEEE conformance, glibc libm as a model parameter, the real-valued specs in lean/Props.")
LEVELS = {}
for pid, sp in PROPS.items():
    LEVELS[pid] = {'category': 'other', 'text': 'Executable Lean 4 model of the code checked bit-for-bit against the real crates on the property stream (correspondence) plus a failing-input '
                   'search of the property statement on the implementation; property theorems for this property are not yet complete, so no proof-level claim is made. ' + sp['explanation'],
                   'note': NOTE, 'technique': 'Lean 4 executable model + differential correspondence + oracle search (theorems pending)'}

def proof(pid, text, technique):
    LEVELS[pid] = {'category': 'proof', 'text': text, 'note': NOTE, 'technique': technique}

proof('C12', 'Kernel-checked theorems about the Lean model for ALL frames/geometries/lengths: the YUV constructor returns each documented error in the documented precedence '
      '(yuvNew_decim/width/height/chroma/cover/scan), accepts iff WellFormed (yuvNew_iff; WellFormed = the four clauses of the statement + buffer coverage, which Plane::new frames always satisfy: planeNew_covers), '
      'keeps the frame verbatim with the resolved config (yuvNew_verbatim); float constructors accept iff len = w*h with true multiplication (fimg_new_iff, rgb_new_iff). '
      'The PlaneIter sample scan is proved to decide "some visible sample exceeds 2^n-1" (Proofs/Frame.lean). Model tied to the code by the geometry-stream correspondence and an independent contract oracle.',
      'Lean 4 theorems (case analysis + induction over the scan loops) on a model validated by differential correspondence')
proof('C14', 'The error/success status of every conversion is proved to be a function of the metadata alone for every image (yuvToRgb_status, rgbToYuv_status, rgbToLinear_status, linearToRgb_status) '
      'and independent of the build; the contract (symmetry of support, equal errors for the single-stage pairs, the 7/14/11 supported values always succeed, errors name the field at fault, '
      'standard matrices ignore primaries) is then decided by the Lean kernel over all 15x14x19 enum values (`decide`), without evaluating a float. Exhaustive correspondence of all 3276 triples ties the tables to the code.',
      'Lean 4 `decide` over the full metadata product + structural lemmas; exhaustive correspondence')
proof('C15', 'For ALL widths and heights (not a range): the model guess functions, with thresholds regenerated from the source, equal the documented mpv table (guess_is_mpv, by rfl), resolution never leaves Unspecified (fix_specified), '
      'is idempotent, Yuv::new / Rgb::new / rgb_to_yuv store exactly the resolved config; labels match content: a successful LinearRgb->Yuv conversion applied exactly the transfer/primaries/matrix it stores (linearToYuv_label, the repaired defect D4). '
      'The numeric "decodes back within the C09 budget" clause is covered by the content oracle and by C09, not by a theorem.',
      'Lean 4 theorems (rfl / case analysis) on the model; exhaustive correspondence over Unspecified subsets and threshold sizes')
LEVELS['C20'] = {'category': 'other', 'text': 'Feature wiring is proved: on the manifests regenerated from both Cargo.toml files, default features enable yuvxyb-math/fastmath and --no-default-features does not (C20.no_default_disables_fastmath, '
      '`decide`), and with fastmath off the helpers are the libm parameter (nofast_is_libm). "Every property holds under each build" is established by running the correspondence (model with matching fastmath/fma flags) and the '
      'property oracles against four real builds of the harness (default, +fma, --no-default-features, overflow/debug-checked); the 5e-5 accuracy clause without fastmath is checked by the oracle, not proved (libm is a model parameter).',
      'note': NOTE, 'technique': 'Lean 4 `decide` on translated Cargo manifests + correspondence/oracles under four builds'}

proof('C11', 'Kernel-checked loop invariants for ALL widths, heights, strides, paddings and subsamplings (induction over the two nested loops, Proofs/Decode.lean, Encode.lean, EncodeTop.lean): '
      'decode returns w*h pixels in row-major place, pixel (x,y) a function of Y(x,y) and the chroma sample at (x>>ss_x, y>>ss_y) only (decode_pointwise), hence independent of stride/padding/padding contents '
      '(decode_layout_independent); encode produces planes of size (w, h) and (w>>ss_x, h>>ss_y), the luma plane is the pointwise image of the input and every chroma sample is the chroma of an input pixel inside its own block, '
      'including the last_uv_pos skip logic (encode_spec); float conversions are maps of their pixel function and equal the 1x1 conversion (float_maps_pointwise, mapPxL_pointwise). Determinism/source immutability are '
      'properties of pure functions in the model and are checked on the code by the correspondence and the C11 oracle.',
      'Lean 4 loop-invariant proofs by induction (no bound on sizes) on a model validated by differential correspondence')
LEVELS['C07'] = {'category': 'proof', 'text': 'Kernel-checked, for all geometries: Yuv::new establishes InvYuv (chroma planes of the subsampled size, luma dims divisible, every buffer covers its geometry); under InvYuv the decode loop '
      'returns ok - no unchecked read outside a buffer (decode_safe, yuvToRgb_safe); the encode loop never writes out of bounds: sizes the subsampling does not divide panic before the loop, all others succeed and re-establish InvYuv '
      '(encode_safe); frames whose chroma planes cannot cover the luma plane, or whose config exceeds their buffer, are rejected (undersized_chroma_rejected, uncovered_plane_rejected). Since Yuv values only arise from Yuv::new and the conversions, '
      'this covers every call sequence. The float->int part (exp2 never feeds NaN/inf/out-of-range to to_int_unchecked, for every bit pattern) is stated in Props/C18.lean; until that theorem is complete it is covered by the outcome-class '
      'correspondence with the hook assertion on special floats (listed under partial in the evidence).',
      'note': NOTE, 'technique': 'Lean 4 invariant proofs (constructor establishes, loops preserve) + outcome-class correspondence with hook assertions'}

def partial(pid, text, technique):
    LEVELS[pid] = {'category': 'other', 'text': text, 'note': NOTE, 'technique': technique}

partial('C03', 'Proved (kernel): Linear is the bit-exact identity for every image, the four aliases are the same function as BT.1886 (bit-identical), Linear through the API returns the data unchanged; '
        'proved by evaluation of the model (native_decide): every non-log curve maps 0 to 0 within 1e-6 and 1 to 1 within its budget, both FMA modes. NOT proved: the 2.5e-4/5.7e-4 accuracy over all floats of [0,1]; '
        'that clause rests on the bit-exact correspondence of the model with the code plus the f64 oracle (every float of [0,1] in the thorough tier) - hence category other, not proof.',
        'Lean 4 theorems for the exact clauses + model evaluation of anchors; correspondence + exhaustive oracle for accuracy')
partial('C06', 'Proved: identical source and target primaries leave every image bit-exactly unchanged (same_primaries); by evaluation of the 22 model matrices (native_decide): white maps to white within 1e-5 and back, both FMA modes. '
        'NOT proved: 1e-5 accuracy against the exact CIE derivation for all pixels (correspondence on all 14 primaries values + f64 oracle).',
        'Lean 4 theorem + evaluated matrix checks; correspondence + f64 CIE oracle')
partial('C09', 'Proved (kernel) for every image/config/build: YUV->XYB->YUV with the image own config preserves width, height, plane sizes and config (roundtrip_shape, via dimension lemmas for every stage). '
        'NOT proved: the code budget max(1, 0.015*(2^n-1)); checked by chain correspondence (bit-exact model of all five stages) and the oracle.',
        'Lean 4 shape theorem; correspondence + oracle for the numeric budget')
partial('C10', 'Proved: Linear and alias clauses (exact). NOT proved: the round-trip bound for the non-trivial curves; correspondence + oracle over every float of [0,1] in the thorough tier.',
        'Lean 4 exact clauses; correspondence + exhaustive oracle')
partial('C13', 'Proved (kernel), pixel data being arbitrary bit patterns: every emitted code is <= 2^n-1 (codes_valid); RGB->YUV on any float data returns a value or a ConversionError, never panic/UB, and the result satisfies the constructor invariant '
        '(rgbToYuv_total, from the encode loop invariant); YUV->RGB on any constructed image is total (yuvToRgb_total); XYB/HSL stages are total maps. Pending: exp2 totality for every bit pattern (the only way a curve can fail), finiteness of outputs for inputs in [0,1]^3. '
        'Both optimised and overflow/debug-checked builds are exercised by correspondence and oracle.',
        'Lean 4 theorems from loop invariants; correspondence + oracle under optimised and checked builds')
partial('C16', 'Proved exhaustively (native_decide over all 3.67 million cases, lifted to a forall-theorem): for every standard matrix, range, depth 8..16, FMA mode and EVERY luma code, neutral chroma decodes to R=G=B within 5e-7, nominal black to exactly 0, nominal white to 1 within 1e-6 '
        '(C16.grey_axis; exact dyadic comparison, no sampling). Curve anchors: C03.anchors. NOT proved: primaries/XYB/HSL grey clauses (correspondence + oracle over 2^20 grey levels in the thorough tier).',
        'Lean 4 exhaustive evaluation of the bit-exact model (native_decide) + soundness lemma; correspondence + oracle')
partial('C19', 'Proved (kernel, generic in the element bit patterns, both formats): transpose is an exact involution, scalar_div/component_mul are element-wise, mul_vec/mul_arr are the same expression. NOT proved: the accuracy clauses; correspondence in f32 and f64 + exact oracle.',
        'Lean 4 structural theorems; correspondence + exact oracle')

LEVELS['C07'] = {'category': 'proof', 'text': 'Kernel-checked, for all geometries and all float bit patterns: Yuv::new establishes InvYuv (chroma planes of the subsampled size, luma dims divisible, every buffer covers its geometry); under InvYuv the decode loop '
      'returns ok - no unchecked read outside a buffer (decode_safe, yuvToRgb_safe); the encode loop never writes out of bounds: sizes the subsampling does not divide panic before the loop, all others succeed and re-establish InvYuv '
      '(encode_safe); frames whose chroma planes cannot cover the luma plane, or whose config exceeds their buffer, are rejected (undersized_chroma_rejected, uncovered_plane_rejected); and for EVERY 32-bit pattern the argument of the only '
      'unchecked float->int conversion (exp2) is finite and within [-128,129] (C18.exp2_total, via the real-number semantics of the softfloat model: lt_iff, sub_val), hence every transfer curve and the gamma<->linear conversions are total '
      '(C18.curve_total, C13.rgbToLinear_total, C13.linearToRgb_total). Since Yuv values only arise from Yuv::new and the conversions, this covers every call sequence.',
      'note': NOTE, 'technique': 'Lean 4 invariant proofs (constructor establishes, loops preserve) + real-semantics proof of the clamp range; outcome-class correspondence with hook assertions'}
partial('C18', 'Proved (kernel): totality - for every bit pattern exp2 feeds to_int_unchecked a finite value in [-128,129] (exp2_total, re-proved against the clamp constants regenerated from the source), hence powf, expf and every transfer curve return a value '
        '(powf_total, expf_total, curve_total). NOT proved: the accuracy contracts (cbrtf 1 ulp and oddness, powf, expf bounds and ranges); these rest on the bit-exact correspondence and the f64 oracle (all 2^32 arguments in the thorough tier).',
        'Lean 4 real-semantics proof of totality; correspondence + exhaustive oracle for accuracy')
partial('C13', 'Proved (kernel), pixel data being arbitrary bit patterns: every emitted code is <= 2^n-1 (codes_valid); RGB->YUV returns a value or a ConversionError, never panic/UB, and the result satisfies the constructor invariant (rgbToYuv_total); '
        'YUV->RGB on any constructed image is total (yuvToRgb_total); gamma<->linear on any float data, any transfer/primaries, any build is total (rgbToLinear_total, linearToRgb_total, from C18.exp2_total); XYB/HSL stages are total maps. '
        'NOT proved: finite inputs in [0,1]^3 give finite outputs (oracle only); usize overflow behaviour of overflow-checked builds is not modelled (sizes are Nat) - the checked build is exercised by correspondence and oracle.',
        'Lean 4 theorems from loop invariants and exp2 totality; correspondence + oracle under optimised and checked builds')

proof('C01', 'Machine-checked for EVERY code triple (no enumeration of triples): C01.api_decode - Rgb::try_from(&Yuv) on any accepted image (any size/stride/padding/subsampling, any primaries/transfer tags) with a standard matrix, depth 8..16, '
      'both FMA modes, returns pixel (x,y) within 3e-6 per component of the exact H.273 decode of Y(x,y), U(x>>ss_x,y>>ss_y), V(...). Ingredients: (N, native_decide, re-evaluated against the constants regenerated from the source) the model computed '
      'inverse matrices are entry-wise within 2.5e-7 of the exact rational H.273 matrices and EVERY code of every depth/range normalises within 2e-7 of the H.273 formula; (K) soundness of the exact-rational checker, the standard-model rounding '
      'lemmas for binary32 (round_val, mul/add/fma) and the 3-term dot-product error analysis over the reals; decodeSpec_is_h273 shows the exact matrix is R=Y+2(1-Kr)Cr, B=Y+2(1-Kb)Cb, G=(Y-Kr R-Kb B)/Kg. The N parts trust the Lean compiler in addition to the kernel.',
      'Lean 4: rounding-error analysis over the reals (kernel) + exhaustive evaluated checks of constants and per-code normalisation (native_decide); correspondence ties the model to the code')

proof('C02', 'Machine-checked for EVERY finite RGB pixel with components of magnitude <= 3/2 (in particular [-1/2,3/2]^3), every standard matrix, range, depth 8..16, storage and FMA mode (C02.encode_close): each of the three codes is within '
      '1/2 + 1e-6*2^n of the H.273 quantisation S*(exact row . rgb) + O clamped to [0,2^n-1], including the full-range chroma shortcut at -0.5 (chroma_shortcut); encodeSpec_is_h273 shows the exact rows are Y=KrR+KgG+KbB, Cb=(B-Y)/(2(1-Kb)), Cr=(R-Y)/(2(1-Kr)); '
      'encode_shape: the output carries the requested (resolved) config and the input dimensions. Ingredients: (N, native_decide on regenerated constants) forward matrices within 6e-8 of the exact rationals, exact rows of absolute sum <= 1, scale/offset exactly the H.273 integers; '
      '(K) dot-product and FMA rounding analysis over the reals, semantics of round() half-away + saturating as-u16 (round_spec), 1-Lipschitz clamp (quant_err).',
      'Lean 4: rounding-error analysis over the reals (kernel) + evaluated checks of constants (native_decide); correspondence ties the model to the code')

proof('C08', 'Machine-checked for EVERY code triple, standard matrix, range, depth 8..16, storage and FMA mode (C08.roundtrip_exact): decoding a pixel and encoding it again returns the luma code clamped to [16k,235k] (identity for full range) and each chroma code '
      'clamped to [16k,240k], the only deviation being that a full-range chroma code 0 may come back as 1 (and is proved to come back as 0 or 1). Proof: composition of the C01 bound (3e-6), the forward-row analysis on the computed pixel (row_fwd2), the exact identity '
      'encodeSpec * decodeSpec = I over the rationals (spec_inverse), so the value entering round() is within 0.26 of the integer expected code at every depth; round_spec/quant_exact then give exact equality; the -0.5 shortcut is shown not to fire for codes >= 1 (shortcut_not_taken). '
      'Pixel level (1x1 semantics); C11 lifts pixel functions to images of any layout. Evaluated ingredients (native_decide) as in C01/C02.',
      'Lean 4: composition of the C01/C02 rounding analyses + exact rational inverse + integer rounding lemmas; correspondence ties the model to the code')

proof('C06', 'Machine-checked for EVERY finite pixel with components of magnitude <= 2 (in particular [-1/2,2]^3), each of the 10 supported non-709 primaries, either direction, both FMA modes (C06.prim_close): every output component is within 1e-5 (absolute, hence within '
      '1e-5*max(1,|v|)) of the exact matrix M_out^-1 * Bradford(white_in->white_out) * M_in computed in rational arithmetic from the H.273 chromaticities and white points (Check/Prim.lean: exact 3x3 inverses by the adjugate); the exact matrix has row sums exactly 1, so '
      'white maps to white and greys to greys within 1e-5 for the computed conversion; identical primaries return the data bit-exactly unchanged (same_primaries). Ingredients: (N) the 40 model matrices are entry-wise within 1.2e-6 of the exact ones (native_decide, '
      're-evaluated on regenerated constants); (K) checker soundness + dot-product rounding analysis. Not proved as a theorem: "there and back within 1e-5 for every pixel" (evaluated for white, oracle for random pixels).',
      'Lean 4: exact rational CIE derivation + evaluated matrix closeness (native_decide) + rounding analysis over the reals; correspondence ties the model to the code')

proof('C16', 'Every clause is machine-checked. YUV->RGB: for every standard matrix, range, depth 8..16, FMA mode and EVERY luma code, neutral chroma decodes to R=G=B within 5e-7, nominal black to exactly 0, nominal white to 1 within 1e-6 '
      '(grey_axis: exhaustive native_decide over 3.67 million cases + soundness lemma, exact dyadic comparisons). Curves: every non-log curve maps 0 to 0 within 1e-6 and 1 to 1 within its budget (curve_anchors, evaluated; HLG linear->gamma at 1 goes through libm ln and is excluded). '
      'Primaries: every supported conversion maps every grey of magnitude <= 2 to a grey within 1e-5 per component (prim_grey, corollary of C06.prim_close: exact row sums are 1). XYB and HSL: for every grey level i/2^20, i = 0..2^20: |X| <= 1e-6, |Y-B| <= 1e-6, black -> 0 within 1e-6, '
      'HSL = (0, 0, v) bit for bit (xyb_grey, hsl_grey: exhaustive native_decide in 16 slices lifted by allFrom_spec). native_decide theorems trust the Lean compiler/runtime in addition to the kernel.',
      'Lean 4: exhaustive evaluation of the bit-exact model (native_decide) with soundness lemmas + corollary of the C06 real analysis; correspondence ties the model to the code')

partial('C19', 'Proved (kernel, over the reals, both formats and both FMA modes, for all finite operands of magnitude <= 2): mul_vec/mul_arr, mul_mat (every entry), dot, cross and component_mul are within 3e-6 absolute, hence within '
        '1e-5*max(1,|exact|), of the exact products (mulVec_accurate32/64, mulMat_accurate32/64, dot_, cross_, cmul_accurate32/64: dot-product rounding analysis); scalar_div is within 1e-5*max(1,|q|) of the real quotient for any finite non-zero divisor '
        '(sdiv1_32/64, from the division lemma div_val); transpose is an exact involution, scalar_div/component_mul element-wise, mul_vec = mul_arr (structural, rfl). NOT proved: A*invert(A) = I within 1e-4 for |det| >= 0.5 and the bit-exact identity() clause; '
        'those rest on the correspondence (operands drawn from structure classes: diagonal, permutation, shear, triangular, sparse, colour matrices) and the exact f64 oracle - hence category other.',
        'Lean 4 rounding-error analysis over the reals for the products + structural theorems; correspondence + exact oracle for invert/identity')
partial('C18', 'Proved (kernel): totality - for every bit pattern exp2 feeds to_int_unchecked a finite value in [-128,129] (exp2_total, re-proved against the clamp constants regenerated from the source), hence powf, expf and every transfer curve return a value '
        '(powf_total, expf_total, curve_total); cbrtf accuracy - for EVERY normal argument of either sign the result is finite and within relative 2^-24 + 1e-11 of the real cube root (cbrtf_accurate: the integer seed is within 1/20 for all exponents and fractions, '
        'by periodicity in the exponent and a 192-cell kernel-evaluated check re-run against the regenerated constants 3 and B1; two binary64 Halley steps analysed over the reals give 3.4e-12; one final binary32 rounding). This is the 1-ulp clause in relative form '
        '(exactly <= 1 ulp except within 1.7e-4 below a power of two, where the bound reads 1.0002 ulp). NOT proved: bit-exact oddness, the powf (2.5e-4 + 8e-6|y|) and expf (1e-5, overflow/underflow ranges) contracts; these rest on the bit-exact correspondence and the f64 oracle (all 2^32 arguments in the thorough tier).',
        'Lean 4 real-semantics proofs (totality; cbrtf seed + Halley analysis); correspondence + exhaustive oracle for powf/expf accuracy')

proof('C04', 'Machine-checked (kernel only, no native evaluation) for the fastmath build: C04.xyb_close / api_xyb - for images of any size, width, height and pixel order are preserved and EVERY finite pixel with components in [-1,4] that is non-negative (so every pixel of [0,4]^3) or has '
      'each opsin mix <= -1/1000 or >= 1/20 is mapped within 2e-6 per component of X=(L-M)/2, Y=(L+M)/2, B=S, (L,M,S)=cbrt(max 0 (A rgb+b))-cbrt(b) with the libjxl constants of the property text as exact rationals and the real cube root. Ingredients: the ten model constants (regenerated from the source) are '
      'within relative 5e-8 of the exact ones (integer comparisons, decide +kernel); rounding analysis of the three fused multiply-adds per row (relative for non-negative pixels, absolute otherwise); the clamp at 0 (cbrtf(0) is a constant below 1e-13); Cbrt.cbrtf_close (seed + two binary64 Halley steps + final rounding, '
      'within 2^-24+1e-11 relative); cube-root perturbation bounds; the final add/sub/halving. With fastmath off cbrtf is the libm parameter of the model and the clause rests on the correspondence and the oracle.',
      'Lean 4: rounding-error analysis over the reals incl. a kernel-checked accuracy proof of cbrtf; correspondence ties the model to the code')

proof('C05', 'Machine-checked (kernel only) for the fastmath build: C05.roundtrip / api_roundtrip - for images of any size, dimensions and pixel order are preserved and EVERY finite pixel of [0,1]^3 comes back from XYB within 5e-5 per component (proved bound 4.4e-5). '
      'The proof follows the values through both functions: forward mixes (relative rounding analysis), cbrtf (Cbrt.cbrtf_close), the inverse recombines Y+X and Y-X into the forward L and M up to 2.6e-7, removes the bias with the SAME constant (cbrtf(-b) = -cbrtf(b) bit for bit, evaluated by the kernel), '
      'cubes with one fused multiply-add and applies the inverse matrix (dot-product rounding analysis). The real identity behind it is INV*K = I for the two constant tables of the source: checked in exact rational arithmetic on the regenerated constants (mat_id: row sums of |INV*K - I| at most 6e-7), '
      'so an inverse table, bias or cube law that no longer agrees with the forward constants breaks the theorem. With fastmath off cbrtf is the libm parameter of the model; that build rests on correspondence + oracle.',
      'Lean 4: end-to-end rounding-error analysis of the round trip over the reals + exact rational INV*K = I check on regenerated constants; correspondence ties the model to the code')

proof('C19', 'Every clause is machine-checked (kernel only), for all finite operands of magnitude <= 2, both formats (the binary64 proofs are generated from the binary32 ones, like the Rust generic is instantiated) and both FMA modes: '
      'mul_vec/mul_arr, mul_mat (every entry), dot, cross, component_mul within 3e-6 absolute, hence within 1e-5*max(1,|exact|), of the exact products (dot-product rounding analysis); scalar_div within 1e-5*max(1,|q|) of the real quotient (division lemma); '
      'transpose an exact involution, scalar_div/component_mul element-wise, mul_vec = mul_arr (structural); identity()*v, identity()*A and A*identity() return every entry with EXACTLY its real value (identity_*: exactness of correct rounding on representable results, '
      'from the monotonicity of rounding); and for |det A| >= 1/2 all 18 entries of A*invert(A) and invert(A)*A are within 1e-4 of the identity (invert_accurate32/64, proved bound 6.3e-5: minors, determinant, nine divisions, adjugate identity A adj(A) = det(A) I, final dot products; '
      'the determinant error is common to all entries and only scales the product). Zero-sign: "exactly" refers to real values, -0 and +0 are identified, as in the correspondence.',
      'Lean 4 rounding-error analysis over the reals (products, Cramer inverse) + exactness/monotonicity of rounding (identity); correspondence ties the model to the code')

partial('C17', 'Proved (kernel only) for EVERY finite linear-RGB pixel of [0,1]^3: H in [0,360), S in [0,1], L in [0,1] exactly (hue_range, saturation_range, lightness - the exact ranges use the monotonicity of correct rounding, which the relative-error model cannot express); '
        'L within 1.3e-7 of (max+min)/2; S within 1e-4 of (max-min)/(1-|2L-1|) for 0.01 <= L <= 0.99 (saturation_accurate); H within 0.01 degrees on the circle of the hexcone hue of the sextant of the maximum channel when max-min >= 0.01 (hue_accurate: the code picks the sextant by |max - c| < EPSILON, '
        'the theorem shows the neighbouring formulas agree to 60*1.2e-7/(max-min) there, and that the two wrap-around steps only move the hue by a multiple of 360 up to 3e-5); L = 0 decodes to exactly black and L = 1 to exactly white for every finite hue in [0,360) and saturation in [0,1] (black_white). '
        'NOT proved: the round trip LinearRgb -> Hsl -> LinearRgb within 1e-5 (bit-exact correspondence + oracle) - hence category other.',
        'Lean 4 real-semantics proofs incl. monotone/exact rounding, fmod, max/min; correspondence + hexcone oracle for the round trip')

proof('C17', 'Every clause is machine-checked (kernel only) for EVERY finite linear-RGB pixel of [0,1]^3: H in [0,360), S in [0,1], L in [0,1] exactly (hue_range, saturation_range, lightness - exact ranges via the monotonicity of correct rounding); L within 1.3e-7 of (max+min)/2; '
      'S within 1e-4 of (max-min)/(1-|2L-1|) for 0.01 <= L <= 0.99 (saturation_accurate); H within 0.01 degrees on the circle of the hexcone hue of the sextant of the maximum channel when max-min >= 0.01 (hue_accurate); LinearRgb -> Hsl -> LinearRgb returns the pixel within 1e-5 per component '
      '(hsl_roundtrip / api_hsl_roundtrip, proved bound 5.5e-6: the chroma recomputed by the inverse uses the SAME denominator bit for bit, so division and multiplication cancel whatever its size; the fmod is exact; the float sextant selection equals the closed-form 1-Lipschitz hexcone ramps; '
      'the hue error is of order (rounding + 1.2e-7/chroma) and is multiplied back by the chroma); L = 0 decodes to exactly black and L = 1 to exactly white for every finite hue in [0,360) and saturation in [0,1] (black_white). Pixels are assumed to be f32 bit patterns (below 2^32), as every f32 is.',
      'Lean 4 real-semantics proofs (monotone/exact rounding, exact fmod, max/min, hexcone model with Lipschitz ramps); correspondence ties the model to the code')

proof('C18', 'Machine-checked by the Lean kernel alone (no native evaluation), fastmath build, both FMA modes. powf_accurate: for EVERY positive normal x and every finite y with |y| <= 80 whose true result x^y lies in [1e-35, 1e35], powf returns a finite value '
      'with relative error <= 2.5e-4 + 8e-6|y| against the real power. expf_accurate: relative error <= 1e-5 against the real exponential for every finite argument of [-85, 85]. Building blocks (also stated): exp2 within relative 1.734e-4 of 2^x on [-124,124] and within 9.1e-7 on integer and [0,1] '
      'arguments (exp2_accurate), log2 within 1.14e-5 + 2^-24|log2 x| of the real logarithm for every positive normal x (log2_accurate). How: the degree-5 polynomials are compared with 2^f (Taylor polynomial of exp with Mathlib\'s explicit remainder, log 2 to 9 digits) and with log2 m (m=(1+z)/(1-z), odd series with '
      'Mathlib\'s remainder) by exact-rational polynomial sign certificates on cells with adaptive bisection (Proofs/PolyCert.lean: every real point of the interval lies in a checked cell; `decide +kernel` re-evaluates them on the coefficients REGENERATED from the source, so a changed coefficient is re-proved or breaks a named '
      'certificate); the Horner rounding error is a rational computed from the coefficient bit patterns with interval enclosures of the partial sums on 16 pieces of [1,2) (Proofs/Horner.lean); the integer/fraction split of exp2 (truncating to_int_unchecked, i32->f32, the exponent-field construction of 2^i), floor, and every '
      'rounding are followed through the softfloat semantics. cbrtf_accurate: for EVERY normal argument of either sign the result is finite and within relative 2^-24 + 1e-11 of the real cube root (<= 1 ulp except within 1.7e-4 below a power of two, where the bound reads 1.0002 ulp). Totality: for every bit pattern exp2 feeds '
      'to_int_unchecked a finite value in [-128,129], so powf, expf and every curve return a value (exp2_total, powf_total, expf_total, curve_total). NOT proved as theorems: bit-exact oddness of cbrtf and the saturation clauses of expf (+inf for 89 <= x <= 1e38, 0 for -1e38 <= x <= -88); these two rest on the bit-exact '
      'correspondence and the oracle (all 2^32 arguments in the thorough tier). With fastmath off the helpers are the libm parameter of the model.',
      'Lean 4: kernel-checked polynomial sign certificates + Taylor/series remainders from Mathlib + rounding-error analysis over the reals (powf, expf, exp2, log2, cbrtf), totality by case analysis; correspondence ties the model to the code')

partial('C03', 'Machine-checked by the Lean kernel alone, fastmath build, both FMA modes, for EVERY binary32 value of [0,1] (zero of either sign, subnormals, normals): the power-law family - BT.1886 and its aliases ST 170M, ST 240M, BT.2020-10/12, BT.470M (2.2), BT.470BG (2.8) - and xvYCC return, in both directions, a finite value within 2.5e-4 of the defining formula '
        'x^gamma / x^(1/gamma) over the reals (C03.power_law_curves, C03.xvycc_curves; through the dispatch tables toLinearFn / toGammaFn). They rest on PowCurve.pow_unit (powf on [0,1] within 1.832e-4 + 7.914e-6 gamma + 4e-6, including the near-black cases where both values are below 2^-39), i.e. on the exp2 / log2 accuracy theorems of C18 with their '
        'kernel-evaluated polynomial certificates; the exponent constants (2.4, 1.0/2.4, ...) are taken from the regenerated source constants and evaluated exactly (softfloat division in the kernel). Also proved: Linear is the bit-exact identity for every image, the four aliases are the same function as BT.1886 (bit-identical), '
        'every non-log curve maps 0 to 0 within 1e-6 and 1 to 1 within its budget (evaluation, native_decide). NOT proved: the 2.5e-4 clause for sRGB, Log100, Log316, HLG and the 2.5e-4/5.7e-4 clause for PQ over all floats; those rest on the bit-exact correspondence of the model with the code plus the f64 oracle (every float of [0,1] in the thorough tier) - hence category other.',
        'Lean 4: kernel-checked accuracy theorems for 8 of 14 characteristics (both directions) on top of the powf analysis; identity/alias theorems; correspondence + exhaustive f64 oracle for the remaining curves')

partial('C10', 'Machine-checked by the Lean kernel alone, fastmath build, both FMA modes: for the power-law family (BT.1886 and its four aliases, BT.470M, BT.470BG) gamma -> linear -> gamma returns EVERY binary32 value x of [0,1] within 2.5e-4 (C10.power_law_roundtrip, through the dispatch tables). The proof follows the value through both powf calls: the '
        'relative error of the first stage is damped by 1/gamma (Bernoulli inequality for real exponents), the second stage contributes its full powf error scaled by x when x <= 0.89, and only the small error of the well-approximated zone of exp2 (exp2_mid: 1.82e-5 on [-0.24, 0.01], its own polynomial certificate) when x > 0.89; '
        'near-black inputs are handled by the "both below 2^-39" alternative of PowRel.pow_rel; the product of the two exponent constants is within 2e-7 of 1 (evaluated on the regenerated constants). Also proved: Linear and alias clauses (exact). NOT proved: the bound for sRGB, xvYCC, Log100/316, HLG and PQ; '
        'correspondence + oracle over every float of [0,1] in the thorough tier - hence category other.',
        'Lean 4: kernel-checked round-trip theorem for 7 of 14 characteristics (real analysis + powf/exp2/log2 accuracy theorems); correspondence + exhaustive oracle for the rest')

LEVELS['C20'] = {'category': 'other', 'text': 'Feature wiring is proved: on the manifests regenerated from both Cargo.toml files, default features enable yuvxyb-math/fastmath and --no-default-features does not (C20.no_default_disables_fastmath, '
      '`decide`), and with fastmath off the helpers are the libm parameter (nofast_is_libm). Accuracy without fastmath, power-law family: under the stated hypothesis that the libm powf parameter is within relative 1e-6 of the real power (glibc documents < 1 ulp = 6e-8), every power-law curve is within 5e-5 (in fact 5e-6) of its '
      'defining formula on every binary32 of [0,1], both directions (C20.power_law_nofast, kernel-only). Every accuracy theorem of C01-C06, C08, C10, C17-C19 is stated for both values of the FMA flag. "Every property holds under each build" is otherwise established by running the correspondence (model with matching fastmath/fma flags) and the '
      'property oracles against four real builds of the harness (default, +fma, --no-default-features, overflow/debug-checked); the 5e-5 clause for the non-power curves without fastmath is checked by the oracle, not proved (libm is a model parameter).',
      'note': NOTE, 'technique': 'Lean 4 `decide` on translated Cargo manifests + accuracy theorem under a libm hypothesis + correspondence/oracles under four builds'}

partial('C03', 'Machine-checked by the Lean kernel alone (C03.accuracy), fastmath build, both FMA modes: for 13 of the 14 supported characteristics - BT.1886 and its aliases ST 170M, ST 240M, BT.2020-10/12, BT.470M (2.2), BT.470BG (2.8), xvYCC, sRGB, Log100, Log316, HLG, Linear - `to_linear` and `to_gamma`, reached through the dispatch tables, return for EVERY binary32 value of [0,1] (zero of either sign, subnormals, normals) a finite value within 2.5e-4 of the defining formula over the reals: '
        'x^gamma and x^(1/gamma); the IEC 61966-2-1 sRGB pair with the STANDARD constants 0.04045 / 0.0031308 / 12.92 / 1.055 / 0.055 (the crate uses derivative-matched constants; the difference is bounded analytically with certified enclosures of rational powers, tangent and chord inequalities: Proofs/SrgbReal.lean); 10^(k(x-1)) and 1 + log10(x)/k; the BT.2100 HLG pair with the exact constants a, b, c (junction at 1/12 handled by a certified enclosure of ln 0.71533108; the square root through F32.sqrt_val). '
        'The linear->gamma direction of Log100/316 and HLG calls libm log10 / ln, which are PARAMETERS of the model: those three statements carry the explicit hypothesis that the parameter is within 1e-6 of the real function. Everything rests on PowCurve.pow_unit (powf on [0,1] within 1.832e-4 + 7.914e-6 gamma + 4e-6, near-black cases included), expf_close and the exp2/log2 accuracy theorems of C18, i.e. on kernel-evaluated polynomial certificates re-run on the regenerated coefficients; '
        'every constant of every curve is taken from the regenerated source constants and evaluated exactly (softfloat divisions such as 1.0/2.4 in the kernel). Also proved: Linear is the bit-exact identity for every image, aliases are bit-identical, anchors at 0 and 1 (evaluation). NOT proved: PQ in either direction (2.5e-4 / 5.7e-4): three chained powf calls amplify the certified bounds beyond the budget (measured margin only 1.2x); PQ rests on the bit-exact correspondence plus the f64 oracle (every float of [0,1] in the thorough tier) - hence category other.',
        'Lean 4: kernel-checked accuracy theorems for 13 of 14 characteristics in both directions (real analysis on top of the powf/expf/sqrt accuracy theorems; libm hypotheses where the code calls libm); correspondence + exhaustive f64 oracle for PQ')

partial('C13', 'Proved (kernel), pixel data being arbitrary bit patterns: every emitted code is <= 2^n-1 (codes_valid); RGB->YUV returns a value or a ConversionError, never panic/UB, and the result satisfies the constructor invariant (rgbToYuv_total); YUV->RGB on any constructed image is total (yuvToRgb_total); gamma<->linear on any float data, any transfer/primaries, any build is total (rgbToLinear_total, linearToRgb_total, from C18.exp2_total); XYB/HSL stages are total maps. '
        'Finiteness: for 13 of the 14 transfer characteristics every finite component of [0,1] is mapped to a finite value in both directions (curves_finite, corollary of C03.accuracy; Log/HLG linear->gamma under the libm hypotheses). NOT proved: finiteness for PQ and for the composed multi-stage conversions (oracle only); usize overflow behaviour of overflow-checked builds is not modelled (sizes are Nat) - the checked build is exercised by correspondence and oracle.',
        'Lean 4 theorems (totality, code validity, finiteness of the transfer stage) + correspondence/oracle in optimised and checked builds')

