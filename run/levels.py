"""MANIFEST level texts per property; updated as theorems land (category 'proof' only where the deciding theorems are proved)."""
from props import PROPS
NOTE = ("Trusted: Lean kernel (+ compiler for native_decide theorems, listed in evidence), the hand-written model tied to /repo by the bit-exact "
        "correspondence run and the literal/manifest translators, rustc/CPU IEEE conformance, glibc libm as a model parameter, the real-valued specs in lean/Props.")
LEVELS = {}
for pid, sp in PROPS.items():
    LEVELS[pid] = {'category': 'other', 'text': 'Executable Lean 4 model of the code checked bit-for-bit against the real crates on the property stream (correspondence) plus a failing-input '
                   'search of the property statement on the implementation; property theorems for this property are not yet complete, so no proof-level claim is made. ' + sp['explanation'],
                   'note': NOTE, 'technique': 'Lean 4 executable model + differential correspondence + oracle search (theorems pending)'}
