#!/usr/bin/env python3
"""Writes MANIFEST.json from run/props.py (levels, notes) - run by hand after editing props.py."""
import json, os, sys
ROOT = os.path.dirname(os.path.dirname(os.path.abspath(__file__)))
sys.path.insert(0, os.path.join(ROOT, 'run'))
from props import PROPS, TRUSTED_BASE
from levels import LEVELS
checks = []
for pid in sorted(PROPS):
    lv = LEVELS[pid]
    checks.append({
        'property_id': pid,
        'quick_cmd': 'python3 run/check.py %s --tier quick' % pid,
        'thorough_cmd': 'python3 run/check.py %s --tier thorough' % pid,
        'evidence_file': 'evidence/%s.json' % pid,
        'replay_cmd_template': 'python3 run/check.py --replay {path}',
        'engine': 'lean-model',
        'level_claimed': {'category': lv['category'], 'text': lv['text'], 'design_ref': 'DESIGN.md section 6 (%s) and section 13' % pid},
        'level_note': lv['note'],
        'technique': lv['technique'],
    })
m = {
    'version': 1,
    'setup_cmd': 'sh run/setup.sh',
    'hooks': {'guard': 'verif-hooks', 'enable': 'cargo feature verif-hooks (yuvxyb/verif-hooks -> yuvxyb-math/verif-hooks), enabled by harness/Cargo.toml',
              'baseline_off_cmd': 'cd /repo && cargo test --workspace --no-fail-fast --offline', 'source_commits': ['df0b30a'], 'add_only': True},
    'engines': [{'name': 'lean-model', 'path': 'lean/', 'serves_properties': sorted(PROPS),
                 'kind_free_text': 'Lean 4 bit-exact executable model of both crates + property theorems (lean/Props), tied to /repo by translators (literals, manifests) and a differential correspondence harness (harness/, run/check.py)'}],
    'checks': checks,
    'not_applicable': [],
    'notes': 'See DESIGN.md. Fixed defects are recorded in known_findings.json (status fixed).',
}
json.dump(m, open(os.path.join(ROOT, 'MANIFEST.json'), 'w'), indent=1)
print('wrote MANIFEST.json with', len(checks), 'checks')
