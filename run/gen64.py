#!/usr/bin/env python3
"""Generates Model/F64.lean from Model/F32.lean and Model/Mat64.lean from Model/Mat32.lean by substituting the
format constants (the binary64 model is the same text as the binary32 one)."""
import os, sys
root = os.path.join(os.path.dirname(os.path.abspath(__file__)), '..', 'lean', 'Model')
s = open(os.path.join(root, 'F32.lean')).read()
s = s.replace('namespace F32', 'namespace F64').replace('end F32', 'end F64')
rep = {'def PREC : Nat := 24': 'def PREC : Nat := 53', 'def FB : Nat := 23': 'def FB : Nat := 52', 'def EMASK : Nat := 255': 'def EMASK : Nat := 2047',
       'def BIAS : Int := 127': 'def BIAS : Int := 1023', 'def QMIN : Int := -149': 'def QMIN : Int := -1074', 'def EMAX : Int := 127': 'def EMAX : Int := 1023',
       'def HID : Nat := 8388608': 'def HID : Nat := 4503599627370496', 'def TOP : Nat := 16777216': 'def TOP : Nat := 9007199254740992',
       'def SIGN : Nat := 2147483648': 'def SIGN : Nat := 9223372036854775808', 'def INFB : Nat := 2139095040': 'def INFB : Nat := 9218868437227405312',
       'def QNAN : Nat := 2143289344': 'def QNAN : Nat := 9221120237041090560'}
for k, v in rep.items():
    assert k in s, k
    s = s.replace(k, v)
s = s.replace('binary32 softfloat', 'binary64 softfloat (GENERATED from F32.lean by run/gen64.py)')
open(os.path.join(root, 'F64.lean'), 'w').write(s)
m = open(os.path.join(root, 'Mat32.lean')).read()
assert 'Mat32' in m
m = m.replace('Mat32', 'Mat64').replace('F32', 'F64').replace('Model.F64', 'Model.F64')
m = m.replace('import Model.F64\n', 'import Model.Conv\n')
for i in range(9):
    m = m.replace('C.Matrix_identity_f%d' % i, 'Conv.f32to64 C.Matrix_identity_2_f%d' % i)
m = m.replace('3x3 algebra over binary32', '3x3 algebra over binary64 (GENERATED from Mat32.lean by run/gen64.py)')
open(os.path.join(root, 'Mat64.lean'), 'w').write(m)
