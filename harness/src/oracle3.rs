//! Failing-input search, part 3: structural and metadata properties (C07, C09, C11, C12, C13, C14, C15, C16 rest, C19).
use crate::exec::*;
use crate::gen::{Rng, CP11, SS, STD7, TC14};
use crate::oracle::*;
use rayon::prelude::*;
use yuvxyb::*;

fn hx(x: f32) -> String { format!("{:08x}", x.to_bits()) }

/// C07 / C13: every request of the geometry / special-float streams must end in ok / err / newerr - never `ub`
/// (hook assertion) and, for C13's in-domain requests, never `panic`.
pub fn outcomes(prop: &str, seed: u64, tier: u32) -> Report {
    let mut rep = Report::new();
    let lines = crate::gen::gen(prop, seed, tier);
    let res: Vec<(String, String)> = lines.par_iter().map(|l| (l.clone(), exec_line(l))).collect();
    for (l, o) in res {
        rep.evaluated += 1;
        if o == "ub" { rep.fail("unchecked access / float->int conversion outside its precondition (hook assertion)", l.clone(), o.clone(), "no UB".into()); }
        let divis_panic_ok = l.starts_with("yenc") && o == "panic" && { let t: Vec<&str> = l.split(' ').collect(); let (ssx, ssy, w, h): (u32, u32, u64, u64) = (t[3].parse().unwrap(), t[4].parse().unwrap(), t[8].parse().unwrap(), t[9].parse().unwrap()); w % (1 << ssx) != 0 || h % (1 << ssy) != 0 };
        if o == "panic" && !divis_panic_ok && !(prop == "C07" && l.starts_with("ydec ") ) { rep.fail("conversion panicked", l.clone(), o.clone(), "no panic".into()); }
        if o == "panic" && prop == "C07" && l.starts_with("ydec ") { rep.fail("decode of a frame panicked", l.clone(), o.clone(), "ok or newerr".into()); }
        if l.starts_with("enc ") || l.starts_with("yenc ") {
            // codes valid: re-wrapping succeeded inside the conversion (Yuv::new unwrap) - checked separately in c13_codes
        }
    }
    rep
}

pub fn c13_codes(seed: u64, budget: usize) -> Report {
    let parts: Vec<Report> = (0..64u64).into_par_iter().map(|th| {
        let mut rep = Report::new();
        let mut r = Rng::new(seed ^ (th * 7727 + 11));
        for it in 0..(budget / 64 / 64 + 1) {
            let (ssx, ssy) = *r.pick(&SS); let w = ((1 + r.below(4)) << ssx) as usize; let h = ((1 + r.below(4)) << ssy) as usize;
            let bd = 8 + r.below(9) as u8; let full = r.below(2) == 1;
            let m = mc_of(*r.pick(&STD7)).unwrap(); let t = tc_of(*r.pick(&TC14)).unwrap(); let p = cp_of(*r.pick(&CP11)).unwrap();
            let cfg = cfg_of(bd, ssx, ssy, full, m, t, p);
            let kind = [1u64, 2, 4, 0][it % 4];
            let img = gen_image(kind, r.next() >> 8, w * h);
            let desc = format!("C13 cfg={:?} {}x{} kind={} first={:?}", cfg, w, h, kind, img[0].map(|c| c.to_bits()));
            let res = std::panic::catch_unwind(|| {
                let mut bad: Vec<String> = vec![];
                let max = ((1u32 << bd) - 1) as u16;
                let chk = |y: &Yuv<u16>, bad: &mut Vec<String>| { for pl in y.data() { for yy in 0..pl.cfg.height { for xx in 0..pl.cfg.width { if pl.p(xx, yy) > max { bad.push(format!("code {} > {}", pl.p(xx, yy), max)); } } } } };
                let lrgb = LinearRgb::new(img.clone(), w, h).unwrap();
                let y = Yuv::<u16>::try_from((lrgb.clone(), cfg)).unwrap(); chk(&y, &mut bad);
                let y2 = Yuv::<u16>::try_from((Xyb::new(img.clone(), w, h).unwrap(), cfg)).unwrap(); chk(&y2, &mut bad);
                let y3 = Yuv::<u16>::try_from((&Rgb::new(img.clone(), w, h, t, p).unwrap(), cfg)).unwrap(); chk(&y3, &mut bad);
                let _ = Hsl::from(lrgb.clone()); let _ = LinearRgb::from(Hsl::new(img.clone(), w, h).unwrap()); let _ = Xyb::from(lrgb.clone());
                let back = LinearRgb::try_from(&y).unwrap(); let xb = Xyb::try_from(&y).unwrap();
                if kind == 0 {
                    // finite inputs in [0,1]^3 give finite outputs at every stage
                    let rgb = Rgb::try_from((lrgb.clone(), t, p)).unwrap();
                    let hs = Hsl::from(lrgb.clone()); let xy = Xyb::from(lrgb.clone());
                    for d in [rgb.data(), hs.data(), xy.data(), back.data(), xb.data(), LinearRgb::try_from(Rgb::new(img.clone(), w, h, t, p).unwrap()).unwrap().data()] {
                        if d.iter().flatten().any(|c| !c.is_finite()) { bad.push("non-finite output for input in [0,1]^3".into()); } }
                }
                bad
            });
            rep.evaluated += 8;
            match res { Ok(b) => { for x in b { rep.fail("conversion produced an invalid result", desc.clone(), x, "codes <= 2^n-1, finite".into()); } }
                Err(_) => rep.fail("conversion panicked on float data", desc, "panic".into(), "no panic".into()) }
        }
        rep
    }).collect();
    let mut rep = Report::new(); for p in parts { rep.merge(p); } rep
}

pub fn c09(seed: u64, budget: usize) -> Report {
    let parts: Vec<Report> = (0..64u64).into_par_iter().map(|th| {
        let mut rep = Report::new();
        let mut r = Rng::new(seed ^ (th * 50021 + 9));
        for _ in 0..(budget / 64 / 256 + 1) {
            let mut m = *r.pick(&STD7); let t = *r.pick(&TC14); let mut p = loop { let p = *r.pick(&CP11); if p != "ST428" { break p; } };
            // one configuration in five uses a matrix whose coefficients the crate derives from the primaries (the statement's
            // count lists the 7 standard matrices; these are the other configurations the crate accepts, and decode and encode must
            // agree for them as well)
            if r.below(5) == 0 { m = *r.pick(&DERIVED5); p = *r.pick(&DERIVED_PRIMS); }
            let full = r.below(2) == 1; let bd = 8 + r.below(9) as u32; let (ssx, ssy) = *r.pick(&SS);
            let cfg = cfg_of(bd as u8, ssx, ssy, full, mc_of(m).unwrap(), tc_of(t).unwrap(), cp_of(p).unwrap());
            // chroma grids of every shape: mostly 16x16, but also a single column / row and tiny grids (the encoder's
            // chroma-write skip is keyed on positions, which only shows on planes one sample wide with several rows)
            let (bw, bh) = match r.below(4) { 0 => (1usize, 1 + r.below(6) as usize), 1 => (1 + r.below(3) as usize, 1 + r.below(3) as usize), _ => (16usize, 16usize) };
            let (w, h) = (bw << ssx, bh << ssy);
            // block-constant in-gamut RGB
            let blocks: Vec<[f32; 3]> = (0..bw * bh).map(|i| match i % 5 { 0 => { let g = r.unit(); [g, g, g] } 1 => { let c = [0.0f32, 1.0]; [*r.pick(&c), *r.pick(&c), *r.pick(&c)] } 2 => [r.unit() * 0.02, r.unit() * 0.02, r.unit() * 0.02], _ => [r.unit(), r.unit(), r.unit()] }).collect();
            let img: Vec<[f32; 3]> = (0..w * h).map(|i| { let (x, y) = (i % w, i / w); blocks[(y >> ssy) * bw + (x >> ssx)] }).collect();
            let rgb = Rgb::new(img, w, h, tc_of(t).unwrap(), cp_of(p).unwrap()).unwrap();
            let y0 = Yuv::<u16>::try_from((&rgb, cfg)).unwrap();
            // every other image is re-wrapped with a different padding for each plane before it is decoded (the constructor accepts
            // planes whose strides differ; the decoder must index each plane with its own stride)
            let y0p = if r.below(2) == 0 { None } else {
                let pads = [(0usize, 0usize), (16, 2), (40, 1)];
                let mk = |pi: usize| { let src = &y0.data()[pi]; let (pw, ph) = (src.cfg.width, src.cfg.height);
                    let mut p: Plane<u16> = Plane::new(pw, ph, src.cfg.xdec, src.cfg.ydec, pads[pi].0, pads[pi].1);
                    for s in p.data.iter_mut() { *s = 77; }
                    let stride = p.cfg.stride; let o = p.data_origin_mut();
                    for yy in 0..ph { for xx in 0..pw { o[yy * stride + xx] = src.p(xx, yy); } } p };
                Some(Yuv::<u16>::new(Frame { planes: [mk(0), mk(1), mk(2)] }, y0.config()).unwrap()) };
            let y1 = Yuv::<u16>::try_from((Xyb::try_from(y0p.as_ref().unwrap_or(&y0)).unwrap(), cfg)).unwrap();
            rep.evaluated += (w * h) as u64;
            if y1.width() != w || y1.height() != h || y1.config() != y0.config() { rep.fail("dimensions/config not preserved", format!("{:?}", cfg), "".into(), "".into()); }
            let budget_codes = (0.015 * ((1u64 << bd) - 1) as f64).max(1.0);
            for pi in 0..3 { let (a, b) = (&y0.data()[pi], &y1.data()[pi]); for yy in 0..a.cfg.height { for xx in 0..a.cfg.width {
                let d = (a.p(xx, yy) as f64 - b.p(xx, yy) as f64).abs(); rep.note("code drift / budget", d / budget_codes, 1.0);
                if !(d <= budget_codes) {
                    let line = if ssx == 0 && ssy == 0 { format!("y2x2y 2 {} {} {} {} {} {} {} {}", m, t, p, full as u8, bd, y0.data()[0].p(xx, yy), y0.data()[1].p(xx, yy), y0.data()[2].p(xx, yy)) } else { format!("C09 {:?} plane {} at {},{}", cfg, pi, xx, yy) };
                    rep.fail("YUV->XYB->YUV moved a sample beyond the budget", line, format!("{}", b.p(xx, yy)), format!("{} +- {}", a.p(xx, yy), budget_codes)); } } } }
        }
        rep
    }).collect();
    let mut rep = Report::new(); for p in parts { rep.merge(p); } rep
}

fn frame_of(r: &mut Rng, ts_u16: bool, w: usize, h: usize, ssx: u8, ssy: u8, pads: [usize; 6], logical: &[Vec<u16>; 3]) -> (Frame<u8>, Frame<u16>) {
    let _ = r;
    let mk8 = |pi: usize| { let (pw, ph, xd, yd, xp, yp) = if pi == 0 { (w, h, 0, 0, pads[0], pads[1]) } else { (w >> ssx, h >> ssy, ssx as usize, ssy as usize, pads[2 * pi], pads[2 * pi + 1]) };
        let mut p: Plane<u8> = Plane::new(pw, ph, xd, yd, xp, yp); for (i, s) in p.data.iter_mut().enumerate() { *s = (mix(i as u64 + pads[0] as u64 * 77) & 255) as u8; }
        let stride = p.cfg.stride; let o = p.data_origin_mut(); for yy in 0..ph { for xx in 0..pw { o[yy * stride + xx] = logical[pi][yy * pw + xx] as u8; } } p };
    let mk16 = |pi: usize| { let (pw, ph, xd, yd, xp, yp) = if pi == 0 { (w, h, 0, 0, pads[0], pads[1]) } else { (w >> ssx, h >> ssy, ssx as usize, ssy as usize, pads[2 * pi], pads[2 * pi + 1]) };
        let mut p: Plane<u16> = Plane::new(pw, ph, xd, yd, xp, yp); for (i, s) in p.data.iter_mut().enumerate() { *s = (mix(i as u64 + pads[1] as u64 * 31) & 0xffff) as u16; }
        let stride = p.cfg.stride; let o = p.data_origin_mut(); for yy in 0..ph { for xx in 0..pw { o[yy * stride + xx] = logical[pi][yy * pw + xx]; } } p };
    let _ = ts_u16;
    (Frame { planes: [mk8(0), mk8(1), mk8(2)] }, Frame { planes: [mk16(0), mk16(1), mk16(2)] })
}

fn bits(d: &[[f32; 3]]) -> Vec<[u32; 3]> { d.iter().map(|p| [canon32(p[0]), canon32(p[1]), canon32(p[2])]).collect() }

pub fn c11(seed: u64, budget: usize) -> Report {
    let parts: Vec<Report> = (0..64u64).into_par_iter().map(|th| {
        let mut rep = Report::new();
        let mut r = Rng::new(seed ^ (th * 1299709 + 17));
        for _ in 0..(budget / 64 / 400 + 1) {
            let (ssx, ssy) = *r.pick(&SS); let mut w = (((1 + r.below(64)) >> ssx).max(1) << ssx) as usize; let h = (((1 + r.below(24)) >> ssy).max(1) << ssy) as usize;
            // one image in four has an alignment-sized width (so that stride == width when there is no horizontal padding)
            let aligned = r.below(4) == 0; if aligned { w = *r.pick(&[32usize, 64]); }
            let u16s = r.below(2) == 1; let bd: u8 = if u16s { *r.pick(&[8u8, 10, 12, 16]) } else { 8 }; let full = r.below(2) == 1;
            let m = *r.pick(&STD7); let t = *r.pick(&TC14); let p = *r.pick(&CP11);
            let cfg = cfg_of(bd, ssx, ssy, full, mc_of(m).unwrap(), tc_of(t).unwrap(), cp_of(p).unwrap());
            let max = (1u64 << bd) - 1;
            let mut logical: [Vec<u16>; 3] = [(0..w * h).map(|_| r.below(max + 1) as u16).collect(), (0..(w >> ssx) * (h >> ssy)).map(|_| r.below(max + 1) as u16).collect(), (0..(w >> ssx) * (h >> ssy)).map(|_| r.below(max + 1) as u16).collect()];
            // half of the images are made of runs of a few colours (exact black, exact white, two random ones), constant per chroma
            // block: a conversion that carries state from one pixel to the next (caches, run-length shortcuts) shows up here
            if r.below(2) == 0 {
                let k = 1u64 << (bd - 8); let mid = (1u64 << (bd - 1)) as u16;
                let (blk, wht) = if full { (0u16, max as u16) } else { ((16 * k) as u16, (235 * k) as u16) };
                let pal: [[u16; 3]; 4] = [[blk, mid, mid], [wht, mid, mid], [r.below(max + 1) as u16, r.below(max + 1) as u16, r.below(max + 1) as u16], [r.below(max + 1) as u16, r.below(max + 1) as u16, r.below(max + 1) as u16]];
                let (cw, ch) = (w >> ssx, h >> ssy); let mut cur = if r.below(2) == 0 { 0 } else { r.below(4) as usize };
                for cy in 0..ch { for cx in 0..cw {
                    if r.below(5) < 2 { cur = r.below(4) as usize; }
                    logical[1][cy * cw + cx] = pal[cur][1]; logical[2][cy * cw + cx] = pal[cur][2];
                    for dy in 0..(1usize << ssy) { for dx in 0..(1usize << ssx) { logical[0][((cy << ssy) + dy) * w + (cx << ssx) + dx] = pal[cur][0]; } } } }
            }
            let desc = format!("C11 {:?} {}x{} u16={}", cfg, w, h, u16s);
            // every plane gets its own padding (U and V need not share a stride)
            let vp = [0usize, 1, 8, 17, 33, 64, 70];
            let pa = [r.below(33) as usize, r.below(33) as usize, r.below(33) as usize, r.below(33) as usize, *r.pick(&vp), r.below(33) as usize];
            let pb = [r.below(33) as usize, r.below(33) as usize, *r.pick(&vp), r.below(33) as usize, r.below(33) as usize, r.below(33) as usize];
            // ... and then only vertical padding in the first layout (flat-buffer shortcuts that forget the rows above the picture)
            let pa = if aligned { [0, 1 + r.below(8) as usize, 0, 1 + r.below(8) as usize, 0, 1 + r.below(8) as usize] } else { pa };
            let (a8, a16) = frame_of(&mut r, u16s, w, h, ssx, ssy, pa, &logical);
            let (b8, b16) = frame_of(&mut r, u16s, w, h, ssx, ssy, pb, &logical);
            // decode: layout independence, determinism, source untouched, pointwise = 1x1 conversion
            macro_rules! dec { ($fa:expr, $fb:expr, $T:ty) => {{
                let ya = Yuv::<$T>::new($fa, cfg).unwrap(); let yb = Yuv::<$T>::new($fb, cfg).unwrap();
                let snap: Vec<Vec<$T>> = ya.data().iter().map(|p| p.data.to_vec()).collect();
                let ra = Rgb::try_from(&ya).unwrap(); let ra2 = Rgb::try_from(&ya).unwrap(); let rb = Rgb::try_from(&yb).unwrap();
                if ya.data().iter().zip(snap.iter()).any(|(p, s)| p.data.to_vec() != *s) { rep.fail("borrowed source was modified", desc.clone(), "".into(), "".into()); }
                if bits(ra.data()) != bits(ra2.data()) { rep.fail("repeating a conversion changed the result", desc.clone(), "".into(), "".into()); }
                if bits(ra.data()) != bits(rb.data()) { rep.fail("result depends on padding/stride/padding contents", desc.clone(), format!("pads {:?} vs {:?}", pa, pb), "".into()); }
                if ra.width() != w || ra.height() != h || ra.data().len() != w * h { rep.fail("dimensions not preserved", desc.clone(), "".into(), "".into()); }
                let xa = Xyb::try_from(&ya).unwrap(); let la = LinearRgb::try_from(&ya).unwrap();
                for _ in 0..12 { let (x, y) = (r.below(w as u64) as usize, r.below(h as u64) as usize);
                    let one = Yuv::<$T>::new(frame_1x1::<$T>(logical[0][y * w + x], logical[1][(y >> ssy) * (w >> ssx) + (x >> ssx)], logical[2][(y >> ssy) * (w >> ssx) + (x >> ssx)]), cfg_of(bd, 0, 0, full, cfg.matrix_coefficients, cfg.transfer_characteristics, cfg.color_primaries)).unwrap();
                    let e = Rgb::try_from(&one).unwrap(); let ex = Xyb::try_from(&one).unwrap(); let el = LinearRgb::try_from(&one).unwrap();
                    rep.evaluated += 3;
                    if bits(&[ra.data()[y * w + x]]) != bits(e.data()) || bits(&[xa.data()[y * w + x]]) != bits(ex.data()) || bits(&[la.data()[y * w + x]]) != bits(el.data()) {
                        rep.fail("output pixel differs from the conversion of the corresponding 1x1 image", desc.clone(), format!("pixel {},{} {:?}", x, y, ra.data()[y * w + x]), format!("{:?}", e.data()[0])); } }
                ra
            }}}
            let rgb = if u16s { dec!(a16, b16, u16) } else { dec!(a8, b8, u8) };
            // encode: luma = 4:4:4 luma, chroma = 4:4:4 chroma of a pixel inside the block, plane sizes
            let img: Vec<[f32; 3]> = gen_image(0, r.next() >> 8, w * h);
            let src = Rgb::new(img.clone(), w, h, cfg.transfer_characteristics, cfg.color_primaries).unwrap();
            let cfg444 = cfg_of(bd, 0, 0, full, cfg.matrix_coefficients, cfg.transfer_characteristics, cfg.color_primaries);
            macro_rules! enc { ($T:ty) => {{
                let ys = Yuv::<$T>::try_from((&src, cfg)).unwrap(); let yf = Yuv::<$T>::try_from((&src, cfg444)).unwrap(); let ys2 = Yuv::<$T>::try_from((&src, cfg)).unwrap();
                if bits(src.data()) != bits(&img) { rep.fail("borrowed source was modified", desc.clone(), "".into(), "".into()); }
                if ys.data()[1].cfg.width != w >> ssx || ys.data()[1].cfg.height != h >> ssy || ys.data()[2].cfg.width != w >> ssx || ys.data()[0].cfg.width != w || ys.data()[0].cfg.height != h { rep.fail("plane sizes are not (w>>ss_x, h>>ss_y)", desc.clone(), "".into(), "".into()); }
                for yy in 0..h { for xx in 0..w { rep.evaluated += 1; if ys.data()[0].p(xx, yy) != yf.data()[0].p(xx, yy) || ys2.data()[0].p(xx, yy) != ys.data()[0].p(xx, yy) { rep.fail("subsampled luma differs from 4:4:4 luma", desc.clone(), format!("{},{}", xx, yy), "".into()); } } }
                for cy in 0..(h >> ssy) { for cx in 0..(w >> ssx) { for pi in 1..3 {
                    let v = ys.data()[pi].p(cx, cy); let mut found = false;
                    for dy in 0..(1usize << ssy) { for dx in 0..(1usize << ssx) { if yf.data()[pi].p((cx << ssx) + dx, (cy << ssy) + dy) == v { found = true; } } }
                    if !found { rep.fail("chroma sample is not the 4:4:4 chroma of a pixel in its block", desc.clone(), format!("plane {} at {},{} = {}", pi, cx, cy, u16::cast_from(v)), "".into()); } } } }
            }}}
            if u16s { enc!(u16) } else { enc!(u8) }
            // float conversions are pointwise maps
            let l = LinearRgb::try_from(rgb.clone()).unwrap(); let x = Xyb::from(l.clone()); let hs = Hsl::from(l.clone()); let lb = LinearRgb::from(x.clone()); let lh = LinearRgb::from(hs.clone());
            for _ in 0..8 { let i = r.below((w * h) as u64) as usize;
                let one = Rgb::new(vec![rgb.data()[i]], 1, 1, rgb.transfer(), rgb.primaries()).unwrap(); let l1 = LinearRgb::try_from(one).unwrap();
                let ok = bits(l1.data()) == bits(&[l.data()[i]]) && bits(Xyb::from(l1.clone()).data()) == bits(&[x.data()[i]]) && bits(Hsl::from(l1.clone()).data()) == bits(&[hs.data()[i]])
                    && bits(LinearRgb::from(Xyb::new(vec![x.data()[i]], 1, 1).unwrap()).data()) == bits(&[lb.data()[i]]) && bits(LinearRgb::from(Hsl::new(vec![hs.data()[i]], 1, 1).unwrap()).data()) == bits(&[lh.data()[i]]);
                rep.evaluated += 5;
                if !ok { rep.fail("float conversion is not pointwise", desc.clone(), format!("pixel {}", i), "".into()); } }
            if x.width() != w || x.height() != h || hs.width() != w || lb.height() != h { rep.fail("dimensions not preserved", desc.clone(), "".into(), "".into()); }
            // self-feeding sequences: pixel k+1 EQUALS the converted value of pixel k, for each float conversion (a conversion that
            // carries state from one pixel to the next - a cache keyed on the wrong value, a run shortcut - shows only here)
            {
                let tcv = tc_of(t).unwrap(); let cpv = cp_of(p).unwrap();
                let one_l = |q: [f32; 3]| LinearRgb::new(vec![q], 1, 1).unwrap();
                type F = Box<dyn Fn(Vec<[f32; 3]>, usize) -> Vec<[f32; 3]>>;
                let convs: Vec<(&str, F)> = vec![
                    ("LinearRgb->Xyb", Box::new(|d, n| Xyb::from(LinearRgb::new(d, n, 1).unwrap()).into_data())),
                    ("Xyb->LinearRgb", Box::new(|d, n| LinearRgb::from(Xyb::new(d, n, 1).unwrap()).into_data())),
                    ("LinearRgb->Hsl", Box::new(|d, n| Hsl::from(LinearRgb::new(d, n, 1).unwrap()).into_data())),
                    ("Hsl->LinearRgb", Box::new(|d, n| LinearRgb::from(Hsl::new(d, n, 1).unwrap()).into_data())),
                    ("Rgb->LinearRgb", Box::new(move |d, n| LinearRgb::try_from(Rgb::new(d, n, 1, tcv, cpv).unwrap()).unwrap().into_data())),
                    ("LinearRgb->Rgb", Box::new(move |d, n| Rgb::try_from((LinearRgb::new(d, n, 1).unwrap(), tcv, cpv)).unwrap().into_data())),
                ];
                let _ = one_l;
                for (name, f) in convs.iter() {
                    let starts = [[r.unit(), r.unit(), r.unit()], { let v = r.unit(); [v, v, v] }, [0.0, 0.0, 0.0], [1.0, 0.0, 0.0], { let v = r.unit(); [v, v, r.unit()] }];
                    let mut seq: Vec<[f32; 3]> = vec![];
                    for st in starts { let mut cur = st; for _ in 0..4 { seq.push(cur); let nx = f(vec![cur], 1)[0]; if !nx.iter().all(|c| c.is_finite()) { break; } cur = nx; } seq.push(st);
                        // near-equal neighbours: the same pixel with one channel moved by one ulp, by 1e-7, and with the sign of a zero flipped
                        // (a conversion that reuses the previous result for "equal" pixels must compare bits, not a tolerance)
                        let ulp = |v: f32, up: bool| if v == 0.0 { if up { f32::from_bits(1) } else { -0.0 } } else { f32::from_bits(if up == (v > 0.0) { v.to_bits() + 1 } else { v.to_bits() - 1 }) };
                        let k = r.below(3) as usize; let mut a = st; a[k] = ulp(st[k], true); seq.push(a); let mut b = st; b[k] = ulp(st[k], false); seq.push(b);
                        let mut c = st; c[(k + 1) % 3] += 1.0e-7; seq.push(c); seq.push(st); let mut d = st; d[(k + 2) % 3] -= 6.0e-8; seq.push(d); }
                    let whole = f(seq.clone(), seq.len());
                    for (i, q) in seq.iter().enumerate() { rep.evaluated += 1;
                        let e = f(vec![*q], 1);
                        if bits(&[whole[i]]) != bits(&e) { rep.fail("float conversion is not pointwise (self-feeding sequence)", format!("{} {:?}/{:?} position {} of {:?}", name, t, p, i, seq), format!("{:?}", whole[i]), format!("{:?}", e[0])); } }
                }
            }
            // history independence ("repeating a conversion gives bit-identical output"): a conversion gives the same bits on this
            // worker thread - which has just run the same conversions with a configuration differing in ONE field - and on a
            // fresh thread (caches keyed on part of the configuration, thread-local or global, show up here)
            {
                let hbd: u8 = *r.pick(&[8u8, 10, 12]); let hfull = r.below(2) == 1;
                let derived = r.below(2) == 0;
                let (hm, hp) = if derived { (*r.pick(&DERIVED5), *r.pick(&DERIVED_PRIMS)) } else { (*r.pick(&STD7), *r.pick(&DERIVED_PRIMS)) };
                let ht = *r.pick(&TC14);
                let c2 = cfg_of(hbd, 0, 0, hfull, mc_of(hm).unwrap(), tc_of(ht).unwrap(), cp_of(hp).unwrap());
                let mut c1 = c2;
                match r.below(5) {
                    0 => { let mut q = hp; while q == hp { q = *r.pick(&DERIVED_PRIMS); } c1.color_primaries = cp_of(q).unwrap(); }
                    1 => { let mut q = hm; while q == hm { q = if derived { *r.pick(&DERIVED5) } else { *r.pick(&STD7) }; } c1.matrix_coefficients = mc_of(q).unwrap(); }
                    2 => { let mut q = ht; while q == ht { q = *r.pick(&TC14); } c1.transfer_characteristics = tc_of(q).unwrap(); }
                    3 => { c1.full_range = !hfull; }
                    _ => { c1.bit_depth = if hbd == 8 { 10 } else { 8 }; }
                }
                let codes_for = |c: &YuvConfig, r: &mut Rng| -> Vec<[u32; 3]> { let mx = (1u64 << c.bit_depth) - 1; (0..8).map(|_| [r.below(mx + 1) as u32, r.below(mx + 1) as u32, r.below(mx + 1) as u32]).collect() };
                let k1 = codes_for(&c1, &mut r); let k2 = codes_for(&c2, &mut r);
                let fimg = gen_image(0, r.next() >> 8, 8);
                let all = |c: YuvConfig, k: &Vec<[u32; 3]>| -> (Vec<[u32; 3]>, Vec<[u32; 3]>, Vec<[u32; 3]>, Vec<[u32; 3]>) {
                    let y = yuv444::<u16>(k, c);
                    let a = bits(Rgb::try_from(&y).unwrap().data());
                    let b = bits(LinearRgb::try_from(&y).unwrap().data());
                    let src = Rgb::new(fimg.clone(), 8, 1, c.transfer_characteristics, c.color_primaries).unwrap();
                    let e = codes_of(&Yuv::<u16>::try_from((&src, c)).unwrap());
                    let f = codes_of(&Yuv::<u16>::try_from((LinearRgb::new(fimg.clone(), 8, 1).unwrap(), c)).unwrap());
                    (a, b, e, f) };
                let _ = all(c1, &k1);
                let here = all(c2, &k2);
                let fresh = std::thread::scope(|sc| sc.spawn(|| all(c2, &k2)).join().unwrap());
                rep.evaluated += 4;
                if here != fresh { rep.fail("result depends on the conversions run before on the same thread", format!("C11 history {:?} after {:?}", c2, c1), "".into(), "".into()); }
            }
        }
        rep
    }).collect();
    let mut rep = Report::new(); for p in parts { rep.merge(p); } rep
}

/// independent statement of the constructor contract, evaluated on the request line itself
pub fn c12(seed: u64, tier: u32) -> Report {
    let mut rep = Report::new();
    for l in crate::gen::gen("C12", seed, tier) {
        let o = exec_line(&l); rep.evaluated += 1;
        let segs: Vec<&str> = l.split(" | ").collect(); let t: Vec<&str> = segs[0].split(' ').collect();
        if t[0] == "fnew" {
            let (len, w, h): (u128, u128, u128) = (t[2].parse().unwrap(), t[3].parse().unwrap(), t[4].parse().unwrap());
            let exp = if w * h == len { format!("ok {} {} {}", w, h, len) } else { "err ResolutionMismatch".to_string() };
            if o != exp { rep.fail("float constructor does not accept exactly len == width*height", l.clone(), o, exp); }
        } else if t[0] == "ynew" {
            let n = |s: &str| -> u64 { s.parse().unwrap() };
            let (ts, bd, ssx, ssy) = (n(t[2 - 1 + 0]), n(t[2]), n(t[3]), n(t[4]));
            // plane geometry: (w h xdec ydec) and coverage for raw planes
            let pl: Vec<(u64, u64, u64, u64, bool, Vec<u64>)> = segs[1..4].iter().map(|s| { let q: Vec<&str> = s.split(' ').collect(); let v: Vec<u64> = q[1..].iter().map(|x| n(x)).collect();
                if q[0] == "n" { (v[0], v[1], v[2], v[3], true, v) } else { let covers = (v[2] as u128) * (v[3] as u128) <= u64::MAX as u128 && (v[9] as u128 + v[3] as u128 - 1) * v[0] as u128 + v[8] as u128 + v[2] as u128 <= v[10] as u128; (v[2], v[3], v[4], v[5], covers, v) } }).collect();
            let (w, h) = (pl[0].0, pl[0].1);
            let exp_err = if pl[1].2 != ssx || pl[2].2 != ssx || pl[1].3 != ssy || pl[2].3 != ssy { Some("SubsamplingMismatch") }
                else if w % (1 << ssx) != 0 { Some("InvalidLumaWidth") } else if h % (1 << ssy) != 0 { Some("InvalidLumaHeight") }
                else if pl[1].0 != w >> ssx || pl[1].1 != h >> ssy || pl[2].0 != w >> ssx || pl[2].1 != h >> ssy { Some("SubsamplingMismatch") }
                else if !(pl[0].4 && pl[1].4 && pl[2].4) { Some("InvalidData") } else { None };
            // visible out-of-range sample?
            let f: Vec<&str> = segs[4].split(' ').collect();
            let mut invalid = false;
            if exp_err.is_none() && ts == 2 && bd < 16 && f.len() >= 7 && f[3] == "poke" {
                let (pi, idx, val) = (n(f[4]) as usize, n(f[5]), n(f[6]));
                let q: Vec<&str> = segs[1 + pi.min(2)].split(' ').collect();
                if q[0] == "n" { let (pw, ph, xp, yp) = (pl[pi].0, pl[pi].1, pl[pi].5[4], pl[pi].5[5]); let al = |x: u64| (x + 31) / 32 * 32; let xo = al(xp); let stride = al(xo + pw + xp);
                    if idx < stride * (yp + ph + yp) { let (row, col) = (idx / stride, idx % stride); if row >= yp && row < yp + ph && col >= xo && col < xo + pw && val > (1 << bd) - 1 { invalid = true; } } }
                else { let v = &pl[pi].5; if idx < v[10] && v[0] > 0 { let (row, col) = (idx / v[0], idx % v[0]); if row >= v[9] && row < v[9] + v[3] && col >= v[8] && col < v[8] + v[2] && val > (1 << bd) - 1 { invalid = true; } } }
            }
            let exp = match exp_err { Some(e) => format!("err {}", e), None => if invalid { "err InvalidData".into() } else { format!("ok {} {} {}", t[6], t[7], t[8]) } };
            // raw planes with stride < width make "visible" ambiguous for the poke; skip those
            let ambiguous = segs[1..4].iter().any(|s| { let q: Vec<&str> = s.split(' ').collect(); q[0] == "r" && n(q[1]) < n(q[3]) + n(q[9]) });
            if o != exp && !(ambiguous && exp_err.is_none()) { rep.fail("YUV constructor result differs from the documented contract", l.clone(), o, exp); }
        }
    }
    rep
}

fn supported_m(m: &str, p: &str) -> Result<(), &'static str> {
    let prim_ok = |p: &str| match p { "Reserved0" | "Reserved" | "ST428" => Err("UnsupportedColorPrimaries"), "Unspecified" => Err("UnspecifiedColorPrimaries"), _ => Ok(()) };
    match m { "Reserved" => Err("UnsupportedMatrixCoefficients"), "Unspecified" => Err("UnspecifiedMatrixCoefficients"),
        "Identity" | "BT2020ConstantLuminance" | "ChromaticityDerivedConstantLuminance" | "ST2085" | "ICtCp" => if p == "BT709" || p == "BT2020" { Ok(()) } else { prim_ok(p) },
        "ChromaticityDerivedNonConstantLuminance" => Err("UnsupportedMatrixCoefficients"), _ => Ok(()) }
}

/// C14 on the real code: all specified triples, every conversion; checks the contract itself (not the model)
pub fn c14(_seed: u64) -> Report {
    let mut rep = Report::new();
    let lines = crate::gen::gen("C14", 0, 0);
    let res: Vec<(String, String)> = lines.par_iter().map(|l| (l.clone(), exec_line(l))).collect();
    for (l, o) in res {
        rep.evaluated += 1;
        let t: Vec<&str> = l.split(' ').collect(); let (m, tc, p) = (t[1], t[2], t[3]);
        let f: Vec<&str> = o.split(' ').collect();
        if f.len() != 10 { rep.fail("conversion panicked or setup failed", l.clone(), o.clone(), "10 fields".into()); continue; }
        let (y2r, r2y, r2l, l2r, y2l, l2y, y2x, x2y) = (f[2], f[3], f[4], f[5], f[6], f[7], f[8], f[9]);
        let okk = |s: &str| s.starts_with("ok:");
        for s in &f[2..] { if !(okk(s) || s.starts_with("err:Un")) { rep.fail("outcome is neither success nor a ConversionError naming a field", l.clone(), o.clone(), "".into()); } }
        if okk(y2r) != okk(r2y) || okk(r2l) != okk(l2r) || okk(y2l) != okk(l2y) || okk(y2x) != okk(x2y) { rep.fail("support is not symmetric", l.clone(), o.clone(), "".into()); }
        if !okk(y2r) && y2r != r2y { rep.fail("YUV<->RGB fail with different errors", l.clone(), o.clone(), "".into()); }
        if !okk(r2l) && r2l != l2r { rep.fail("gamma<->linear fail with different errors", l.clone(), o.clone(), "".into()); }
        let std7 = STD7.contains(&m); let t14 = TC14.contains(&tc); let p11 = CP11.contains(&p);
        if std7 && !okk(y2r) { rep.fail("standard matrix rejected", l.clone(), o.clone(), "".into()); }
        if t14 && p11 && !okk(r2l) { rep.fail("supported curve/primaries rejected", l.clone(), o.clone(), "".into()); }
        if std7 && t14 && p11 && !(okk(y2l) && okk(y2x)) { rep.fail("supported triple rejected", l.clone(), o.clone(), "".into()); }
        let exp = supported_m(m, p); if okk(y2r) != exp.is_ok() { rep.fail("YUV<->RGB support differs from the documented table", l.clone(), o.clone(), format!("{:?}", exp)); }
    }
    // a result does not depend on metadata the conversion does not use: with a standard matrix, YUV<->RGB gives bit-identical
    // results under every transfer and primaries tag - including samples in the head/foot room of the limited range and the
    // extreme codes, at 8 and 10 bit
    {
        let mut r = Rng::new(11);
        for m in STD7 { for full in [false, true] { for bd in [8u8, 10] {
            let max = (1u32 << bd) - 1; let k = 1u32 << (bd - 8);
            let edge = [0u32, 1, 15 * k, 16 * k, 235 * k, 236 * k, 240 * k, 241 * k, max - 1, max, max / 2 + 1];
            let mut codes: Vec<[u32; 3]> = vec![];
            for a in edge { for b in edge { codes.push([a, b, edge[(a as usize + b as usize) % edge.len()]]); codes.push([b, edge[(a as usize * 3 + 1) % edge.len()], a]); } }
            for _ in 0..60 { codes.push([r.below(max as u64 + 1) as u32, r.below(max as u64 + 1) as u32, r.below(max as u64 + 1) as u32]); }
            let mk = |t: TransferCharacteristic, p: ColorPrimaries| cfg_of(bd, 0, 0, full, mc_of(m).unwrap(), t, p);
            let base_cfg = mk(TransferCharacteristic::BT1886, ColorPrimaries::BT709);
            let base = Rgb::try_from(&yuv444::<u16>(&codes, base_cfg)).unwrap().into_data();
            let base_back = codes_of(&Yuv::<u16>::try_from((&Rgb::new(base.clone(), codes.len(), 1, TransferCharacteristic::BT1886, ColorPrimaries::BT709).unwrap(), base_cfg)).unwrap());
            for t in TCS.iter().filter(|x| x.0 != "Unspecified") { for p in CPS.iter().filter(|x| x.0 != "Unspecified") {
                rep.evaluated += 1;
                let desc = format!("independence {} full={} bd={} transfer={} primaries={}", m, full, bd, t.0, p.0);
                match Rgb::try_from(&yuv444::<u16>(&codes, mk(t.1, p.1))) {
                    Ok(o) => { if let Some(i) = (0..codes.len()).find(|&i| bits(&[o.data()[i]]) != bits(&[base[i]])) {
                        rep.fail("YUV->RGB with a standard matrix depends on transfer/primaries", format!("{} codes {:?}", desc, codes[i]), format!("{:?}", o.data()[i]), format!("{:?}", base[i])); } }
                    Err(e) => rep.fail("YUV->RGB with a standard matrix rejected because of transfer/primaries", desc.clone(), format!("{:?}", e), "ok".into()),
                }
                match Rgb::new(base.clone(), codes.len(), 1, TransferCharacteristic::BT1886, ColorPrimaries::BT709).map(|img| Yuv::<u16>::try_from((&img, mk(t.1, p.1)))) {
                    Ok(Ok(y)) => { let back = codes_of(&y); if let Some(i) = (0..codes.len()).find(|&i| back[i] != base_back[i]) {
                        rep.fail("RGB->YUV with a standard matrix depends on transfer/primaries", format!("{} pixel {:?}", desc, base[i]), format!("{:?}", back[i]), format!("{:?}", base_back[i])); } }
                    other => rep.fail("RGB->YUV with a standard matrix rejected because of transfer/primaries", desc.clone(), format!("{:?}", other.map(|x| x.map(|_| ()))), "ok".into()),
                }
            } }
        } } }
    }
    // ... and the same for subsampled layouts, on images whose chroma varies inside every block (a chroma siting or a filter
    // chosen from the transfer / primaries tag shows only there): every plane sample of RGB->YUV and every pixel of YUV->RGB
    // is bit-identical under every transfer and primaries tag
    {
        let mut r = Rng::new(23);
        let (w, h) = (8usize, 6usize);
        let samples = |y: &Yuv<u8>| -> Vec<u16> { y.data().iter().flat_map(|pl| (0..pl.cfg.height).flat_map(move |yy| (0..pl.cfg.width).map(move |xx| u16::cast_from(pl.p(xx, yy))))).collect() };
        for m in STD7 { for (ssx, ssy) in [(1u8, 0u8), (1, 1), (0, 1), (2, 0)] { for full in [false, true] {
            let img: Vec<[f32; 3]> = (0..w * h).map(|_| [r.unit(), r.unit(), r.unit()]).collect();
            let mk = |t: TransferCharacteristic, p: ColorPrimaries| cfg_of(8, ssx, ssy, full, mc_of(m).unwrap(), t, p);
            let frame = |c: YuvConfig, r: &mut Rng| -> Yuv<u8> { let mut f: Frame<u8> = Frame { planes: [Plane::new(w, h, 0, 0, 0, 0), Plane::new(w >> ssx, h >> ssy, ssx as usize, ssy as usize, 0, 0), Plane::new(w >> ssx, h >> ssy, ssx as usize, ssy as usize, 0, 0)] };
                for pl in f.planes.iter_mut() { let (pw, ph, st) = (pl.cfg.width, pl.cfg.height, pl.cfg.stride); let o = pl.data_origin_mut(); for yy in 0..ph { for xx in 0..pw { o[yy * st + xx] = r.below(256) as u8; } } }
                Yuv::<u8>::new(f, c).unwrap() };
            let seed_state = r.next();
            let base_enc = samples(&Yuv::<u8>::try_from((&Rgb::new(img.clone(), w, h, TransferCharacteristic::BT1886, ColorPrimaries::BT709).unwrap(), mk(TransferCharacteristic::BT1886, ColorPrimaries::BT709))).unwrap());
            let base_dec = bits(Rgb::try_from(&frame(mk(TransferCharacteristic::BT1886, ColorPrimaries::BT709), &mut Rng::new(seed_state))).unwrap().data());
            for t in TCS.iter().filter(|x| x.0 != "Unspecified") { for p in CPS.iter().filter(|x| x.0 != "Unspecified") {
                rep.evaluated += 2;
                let desc = format!("independence {} ss=({},{}) full={} transfer={} primaries={}", m, ssx, ssy, full, t.0, p.0);
                match Yuv::<u8>::try_from((&Rgb::new(img.clone(), w, h, t.1, p.1).unwrap(), mk(t.1, p.1))) {
                    Ok(y) => if samples(&y) != base_enc { rep.fail("RGB->YUV (subsampled) with a standard matrix depends on transfer/primaries", desc.clone(), "".into(), "".into()); },
                    Err(e) => rep.fail("RGB->YUV with a standard matrix rejected because of transfer/primaries", desc.clone(), format!("{:?}", e), "ok".into()) }
                match Rgb::try_from(&frame(mk(t.1, p.1), &mut Rng::new(seed_state))) {
                    Ok(o) => if bits(o.data()) != base_dec { rep.fail("YUV->RGB (subsampled) with a standard matrix depends on transfer/primaries", desc.clone(), "".into(), "".into()); },
                    Err(e) => rep.fail("YUV->RGB with a standard matrix rejected because of transfer/primaries", desc.clone(), format!("{:?}", e), "ok".into()) }
            } }
        } } }
    }
    // subsampled configurations: every conversion has the same outcome (success / the same error) as with the 4:4:4 layout of
    // the same triple, and never panics
    {
        let img = |w: usize, h: usize| vec![[0.25f32, 0.5, 0.75]; w * h];
        let outcome = |f: &dyn Fn() -> Result<(), ConversionError>| -> String {
            match std::panic::catch_unwind(std::panic::AssertUnwindSafe(|| f())) { Ok(Ok(())) => "ok".into(), Ok(Err(e)) => format!("err:{:?}", e), Err(_) => "panic".into() } };
        for m in MCS.iter().filter(|x| x.0 != "Unspecified") { for p in [("BT709", ColorPrimaries::BT709), ("BT2020", ColorPrimaries::BT2020), ("ST170M", ColorPrimaries::ST170M)] {
            let t = TransferCharacteristic::BT1886; let (w, h) = (8usize, 8usize);
            let base_cfg = cfg_of(8, 0, 0, false, m.1, t, p.1);
            for (ssx, ssy) in [(1u8, 0u8), (1, 1), (0, 1), (2, 0)] {
                let cfg = cfg_of(8, ssx, ssy, false, m.1, t, p.1);
                let runs: Vec<(&str, Box<dyn Fn(YuvConfig) -> Result<(), ConversionError>>)> = vec![
                    ("Rgb->Yuv", Box::new(move |c| Yuv::<u8>::try_from((&Rgb::new(img(w, h), w, h, t, p.1).unwrap(), c)).map(|_| ()))),
                    ("LinearRgb->Yuv", Box::new(move |c| Yuv::<u8>::try_from((LinearRgb::new(img(w, h), w, h).unwrap(), c)).map(|_| ()))),
                    ("Xyb->Yuv", Box::new(move |c| Yuv::<u8>::try_from((Xyb::new(img(w, h), w, h).unwrap(), c)).map(|_| ()))),
                    ("Yuv->Rgb", Box::new(move |c| { let f: Frame<u8> = Frame { planes: [Plane::new(w, h, 0, 0, 0, 0), Plane::new(w >> c.subsampling_x, h >> c.subsampling_y, c.subsampling_x as usize, c.subsampling_y as usize, 0, 0), Plane::new(w >> c.subsampling_x, h >> c.subsampling_y, c.subsampling_x as usize, c.subsampling_y as usize, 0, 0)] };
                        match Yuv::<u8>::new(f, c) { Ok(y) => Rgb::try_from(&y).map(|_| ()), Err(e) => panic!("Yuv::new rejected a well-formed subsampled frame: {:?}", e) } })),
                ];
                for (name, f) in runs.iter() {
                    rep.evaluated += 1;
                    let a = outcome(&|| f(base_cfg)); let b = outcome(&|| f(cfg));
                    if b == "panic" || a != b { rep.fail("a subsampled configuration behaves differently from the 4:4:4 one (or panics)", format!("{} {} {} ss=({},{})", name, m.0, p.0, ssx, ssy), b, a); }
                }
            }
        } }
    }
    let mut r = Rng::new(7);
    for m in STD7 { for _ in 0..40 {
        let c = [r.below(256), r.below(256), r.below(256)];
        let base = exec_line(&format!("dec 1 {} BT709 0 8 {} {} {}", m, c[0], c[1], c[2]));
        for p in CPS.iter().map(|x| x.0) { let o = exec_line(&format!("dec 1 {} {} 0 8 {} {} {}", m, p, c[0], c[1], c[2])); rep.evaluated += 1;
            if o != base { rep.fail("YUV->RGB with a standard matrix depends on the primaries", format!("dec 1 {} {} 0 8 {} {} {}", m, p, c[0], c[1], c[2]), o, base.clone()); } }
    } }
    rep
}

fn mpv_matrix(w: u64, h: u64) -> &'static str { if w >= 1280 || h > 576 { "BT709" } else if h == 576 { "BT470BG" } else { "ST170M" } }
fn mpv_prim(m: &str, w: u64, h: u64) -> &'static str {
    if m == "BT2020NonConstantLuminance" || m == "BT2020ConstantLuminance" { "BT2020" } else if m == "BT709" || w >= 1280 || h > 576 { "BT709" } else if h == 576 { "BT470BG" } else if h == 480 || h == 488 { "ST170M" } else { "BT709" }
}

pub fn c15(seed: u64, tier: u32) -> Report {
    let mut rep = Report::new();
    let lines = crate::gen::gen("C15", seed, tier);
    let res: Vec<(String, String)> = lines.par_iter().map(|l| (l.clone(), exec_line(l))).collect();
    for (l, o) in res {
        rep.evaluated += 1;
        let segs: Vec<&str> = l.split(" | ").collect(); let t: Vec<&str> = segs[0].split(' ').collect();
        let (m, tc, p, w, h): (&str, &str, &str, u64, u64) = if t[0] == "meta" { (t[1], t[2], t[3], t[4].parse().unwrap(), t[5].parse().unwrap()) } else { let q: Vec<&str> = segs[1].split(' ').collect(); (t[6], t[7], t[8], q[1].parse().unwrap(), q[2].parse().unwrap()) };
        let em = if m == "Unspecified" { mpv_matrix(w, h) } else { m }; let ep = if p == "Unspecified" { mpv_prim(em, w, h) } else { p }; let et = if tc == "Unspecified" { "BT1886" } else { tc };
        if t[0] == "ynew" { let exp = format!("ok {} {} {}", em, et, ep); if o != exp { rep.fail("constructed YUV config differs from the mpv heuristic", l.clone(), o, exp); } continue; }
        let f: Vec<&str> = o.split(' ').collect();
        if f.len() != 10 { rep.fail("conversion panicked or setup failed", l.clone(), o.clone(), "10 fields".into()); continue; }
        if f[0] != format!("{},{},{}", em, et, ep) { rep.fail("Yuv::new resolution differs from the mpv heuristic", l.clone(), f[0].into(), format!("{},{},{}", em, et, ep)); }
        let rt = if tc == "Unspecified" { "SRGB" } else { tc }; let rp = if p == "Unspecified" { "BT709" } else { p };
        if f[1] != format!("{},{}", rt, rp) { rep.fail("Rgb::new resolution differs from sRGB/BT.709", l.clone(), f[1].into(), format!("{},{}", rt, rp)); }
        if o.contains("Unspecified,") || o.contains(",Unspecified") { rep.fail("a constructed image reports Unspecified metadata", l.clone(), o.clone(), "".into()); }
    }
    // labels match content: a successful conversion given Unspecified fields decodes (with its own stored config) back to the input
    let parts: Vec<Report> = (0..32u64).into_par_iter().map(|th| {
        let mut rep = Report::new(); let mut r = Rng::new(seed ^ (th * 3571 + 23));
        for _ in 0..(if tier == 0 { 12 } else { 100 }) {
            // every matrix value (primaries-derived ones included: they consult the primaries tag)
            let m = match r.below(4) { 0 => "Unspecified", 1 => MCS[r.below(15) as usize].0, _ => *r.pick(&STD7) }; let tc = if r.below(3) != 0 { "Unspecified" } else { *r.pick(&TC14) };
            let p = if r.below(3) != 0 { "Unspecified" } else { loop { let p = *r.pick(&CP11); if p != "ST428" { break p; } } };
            let (w, h) = *r.pick(&[(4usize, 4usize), (8, 2), (2, 480), (2, 488), (2, 576), (2, 577), (1280, 2), (1279, 1), (2, 575)]);
            let bd = *r.pick(&[8u8, 10, 12, 16]); let full = r.below(2) == 1;
            let cfg = cfg_of(bd, 0, 0, full, mc_of(m).unwrap(), tc_of(tc).unwrap(), cp_of(p).unwrap());
            let img: Vec<[f32; 3]> = (0..w * h).map(|i| if i % 3 == 0 { let g = r.unit(); [g, g, g] } else { [r.unit(), r.unit(), r.unit()] }).collect();
            let desc = format!("C15 LinearRgb->Yuv cfg={:?} {}x{}", cfg, w, h);
            // the config the constructor will store for these dimensions
            let dummy: Frame<u16> = Frame { planes: [Plane::new(w, h, 0, 0, 0, 0), Plane::new(w, h, 0, 0, 0, 0), Plane::new(w, h, 0, 0, 0, 0)] };
            let res = match Yuv::<u16>::new(dummy, cfg_of(16, 0, 0, full, cfg.matrix_coefficients, cfg.transfer_characteristics, cfg.color_primaries)) { Ok(y) => y.config(), Err(_) => continue };
            // in-gamut content: gamma RGB in [0,1]^3 of the *resolved* colour space, brought to linear BT.709
            let lin = match LinearRgb::try_from(Rgb::new(img.clone(), w, h, res.transfer_characteristics, res.color_primaries).unwrap()) { Ok(l) => l, Err(_) => continue };
            // both routes into YUV: straight from linear RGB and through XYB (Xyb -> Yuv has its own TryFrom impl)
            for route in 0..2 {
            let desc = format!("C15 {}->Yuv cfg={:?} {}x{}", if route == 0 { "LinearRgb" } else { "Xyb" }, cfg, w, h);
            let conv = if route == 0 { Yuv::<u16>::try_from((lin.clone(), cfg)) } else { Yuv::<u16>::try_from((Xyb::from(lin.clone()), cfg)) };
            if let Ok(y0) = conv {
                let c = y0.config();
                if c.matrix_coefficients == MatrixCoefficients::Unspecified || c.color_primaries == ColorPrimaries::Unspecified || c.transfer_characteristics == TransferCharacteristic::Unspecified { rep.fail("output reports Unspecified", desc.clone(), format!("{:?}", c), "".into()); }
                if c.transfer_characteristics != res.transfer_characteristics || c.color_primaries != res.color_primaries { rep.fail("stored config is not the resolved config", desc.clone(), format!("{:?}", c), format!("{:?}", res)); }
                // decode with the stored config and re-encode with it: the codes come back within the C09 budget
                let back = LinearRgb::try_from(&y0).unwrap(); let y1 = Yuv::<u16>::try_from((back, c)).unwrap();
                let budget = (0.015 * ((1u64 << bd) - 1) as f64).max(1.0);
                for pi in 0..3 { for yy in 0..h { for xx in 0..w { rep.evaluated += 1; let d = (y0.data()[pi].p(xx, yy) as f64 - y1.data()[pi].p(xx, yy) as f64).abs(); rep.note("label/content drift / budget", d / budget, 1.0);
                    if !(d <= budget) { rep.fail("stored config does not describe the encoding applied", desc.clone(), format!("plane {} {},{}: {} vs {}", pi, xx, yy, y0.data()[pi].p(xx, yy), y1.data()[pi].p(xx, yy)), format!("within {}", budget)); } } } }
                // content: decoding the output as what its label says gives the gamma RGB we started from
                let dec = Rgb::try_from(&y0).unwrap(); let tol = if bd == 8 { 0.02 } else { 0.015 };
                for (a, b) in dec.data().iter().zip(img.iter()) { for k in 0..3 { rep.evaluated += 1; let d = (a[k] - b[k]).abs() as f64; rep.note("decode-with-own-label error", d, tol);
                    if !(d <= tol) { rep.fail("output labelled with a config that does not describe its content", desc.clone(), format!("{:?}", a), format!("{:?}", b)); } } }
            }
            }
            // Rgb route: Rgb::try_from((LinearRgb, t, p)) stores the resolved transfer/primaries and LinearRgb::try_from inverts it
            let (rt, rp) = (if tc == "Unspecified" { TransferCharacteristic::SRGB } else { tc_of(tc).unwrap() }, if p == "Unspecified" { ColorPrimaries::BT709 } else { cp_of(p).unwrap() });
            let lin2 = match LinearRgb::try_from(Rgb::new(img.clone(), w, h, rt, rp).unwrap()) { Ok(l) => l, Err(_) => continue };
            let rgb_routes = [Rgb::try_from((lin2.clone(), tc_of(tc).unwrap(), cp_of(p).unwrap())), Rgb::try_from((Xyb::from(lin2), tc_of(tc).unwrap(), cp_of(p).unwrap()))];
            for rr in rgb_routes { if let Ok(rgb) = rr {
                if rgb.transfer() != rt || rgb.primaries() != rp { rep.fail("Rgb stores a label that is not the resolved one", desc.clone(), format!("{:?} {:?}", rgb.transfer(), rgb.primaries()), format!("{:?} {:?}", rt, rp)); }
                for (a, b) in rgb.data().iter().zip(img.iter()) { for k in 0..3 { rep.evaluated += 1; let d = (a[k] - b[k]).abs() as f64; rep.note("Rgb label round trip", d, 0.015); if !(d <= 0.015) { rep.fail("Rgb label does not describe the encoding applied", desc.clone(), format!("{:?}", a), format!("{:?}", b)); } } }
            } }
        }
        rep
    }).collect();
    for p in parts { rep.merge(p); }
    rep
}

pub fn c16_rest(seed: u64, budget: usize) -> Report {
    let mut rep = Report::new();
    let mut r = Rng::new(seed ^ 0xc16);
    for t in TC14 { if t.starts_with("Log") { continue; }
        let tcv = tc_of(t).unwrap();
        let l = crate::oracle2::lin(tcv, &[0.0, 1.0]).unwrap(); let g = crate::oracle2::gam(tcv, &[0.0, 1.0]).unwrap(); rep.evaluated += 4;
        let b1 = 2.5e-4; let bg = if t == "PerceptualQuantizer" { 5.7e-4 } else { 2.5e-4 };
        if !((l[0] as f64).abs() <= 1e-6 && (g[0] as f64).abs() <= 1e-6) { rep.fail("curve does not map 0 to 0", format!("tf lin {} 00000000 00000000 00000000", t), format!("{} {}", l[0], g[0]), "0".into()); }
        // 1 -> 1 within the C03 budget of the curve (PQ to_linear maps 1 to its peak-normalised value; compare with the definition)
        let e1l = crate::oracle2::ref_lin(t, 1.0); let e1g = crate::oracle2::ref_gam(t, 1.0);
        if !((l[1] as f64 - e1l).abs() < b1 && (g[1] as f64 - e1g).abs() < bg) { rep.fail("curve does not map 1 to its anchor", format!("tf lin {} 3f800000 3f800000 3f800000", t), format!("{} {}", l[1], g[1]), format!("{} {}", e1l, e1g)); }
    }
    let greys: Vec<f32> = (0..budget.min(1 << 20)).map(|i| if budget >= 1 << 20 { i as f32 / ((1 << 20) - 1) as f32 } else { r.unit() }).chain([0.0, 1.0]).collect();
    let px: Vec<[f32; 3]> = greys.iter().map(|v| [*v, *v, *v]).collect();
    for pn in CP11 { let p = cp_of(pn).unwrap(); for to709 in [true, false] {
        let o = if to709 { piecewise(&px, &|d, w, h| LinearRgb::try_from(Rgb::new(d, w, h, TransferCharacteristic::Linear, p).unwrap()).unwrap().into_data()) } else { piecewise(&px, &|d, w, h| Rgb::try_from((LinearRgb::new(d, w, h).unwrap(), TransferCharacteristic::Linear, p)).unwrap().into_data()) };
        for (q, v) in o.iter().zip(greys.iter()) { rep.evaluated += 1; let sp = (q[0].max(q[1]).max(q[2]) - q[0].min(q[1]).min(q[2])) as f64; rep.note("primaries grey spread", sp, 1e-5);
            if !(sp <= 1e-5) { rep.fail("primaries conversion does not map grey to grey", format!("prim {} {} {} {} {}", if to709 { "to709" } else { "from709" }, pn, hx(*v), hx(*v), hx(*v)), format!("{:?}", q), "grey".into()); } } } }
    let x = Px(piecewise(&px, &|d, w, h| Xyb::from(LinearRgb::new(d, w, h).unwrap()).into_data())); let hs = Px(piecewise(&px, &|d, w, h| Hsl::from(LinearRgb::new(d, w, h).unwrap()).into_data()));
    for i in 0..px.len() { rep.evaluated += 2; let q = x.data()[i]; let v = greys[i];
        rep.note("XYB grey |X|", q[0].abs() as f64, 1e-6); rep.note("XYB grey |Y-B|", (q[1] - q[2]).abs() as f64, 1e-6);
        if !(q[0].abs() <= 1e-6 && (q[1] - q[2]).abs() <= 1e-6) { rep.fail("linear grey does not map to X=0, Y=B", format!("xyb {} {} {}", hx(v), hx(v), hx(v)), format!("{:?}", q), "".into()); }
        if v == 0.0 && !(q.iter().all(|c| c.abs() <= 1e-6)) { rep.fail("black does not map to XYB 0", "xyb 00000000 00000000 00000000".into(), format!("{:?}", q), "0".into()); }
        let s = hs.data()[i]; if !(s[0] == 0.0 && s[1] == 0.0 && s[2].to_bits() == v.to_bits()) { rep.fail("grey is not HSL (0,0,v)", format!("hsl {} {} {}", hx(v), hx(v), hx(v)), format!("{:?}", s), format!("0 0 {}", v)); } }
    rep
}

pub fn c19(seed: u64, budget: usize) -> Report {
    type M = yuvxyb_math::Matrix<f32>; type R = yuvxyb_math::RowVector<f32>; type Cv = yuvxyb_math::ColVector<f32>;
    type M6 = yuvxyb_math::Matrix<f64>; type R6 = yuvxyb_math::RowVector<f64>; type C6 = yuvxyb_math::ColVector<f64>;
    let parts: Vec<Report> = (0..32u64).into_par_iter().map(|th| {
        let mut rep = Report::new(); let mut r = Rng::new(seed ^ (th * 9176 + 29));
        for i in 0..(budget / 32 + 1) {
            let gen9 = |r: &mut Rng| -> [f64; 9] { let v = if i % 5 == 4 { crate::gen::structured_matrix(r).iter().map(|x| (*x as f32) as f64).collect::<Vec<f64>>() } else { crate::gen::structured_matrix(r) }; let mut a = [0.0; 9]; a.copy_from_slice(&v); a };
            let a = gen9(&mut r); let b = gen9(&mut r); let v = [r.range(-2.0, 2.0) as f64, r.range(-2.0, 2.0) as f64, r.range(-2.0, 2.0) as f64]; let u = [r.range(-2.0, 2.0) as f64, r.range(-2.0, 2.0) as f64, r.range(-2.0, 2.0) as f64];
            let a32: Vec<f32> = a.iter().map(|x| *x as f32).collect(); let b32: Vec<f32> = b.iter().map(|x| *x as f32).collect();
            let ae: Vec<f64> = a32.iter().map(|x| *x as f64).collect(); let be: Vec<f64> = b32.iter().map(|x| *x as f64).collect();
            let (v32, u32v) = ([v[0] as f32, v[1] as f32, v[2] as f32], [u[0] as f32, u[1] as f32, u[2] as f32]);
            let ve = [v32[0] as f64, v32[1] as f64, v32[2] as f64]; let ue = [u32v[0] as f64, u32v[1] as f64, u32v[2] as f64];
            let m = |a: &[f32]| M::new(R::new(a[0], a[1], a[2]), R::new(a[3], a[4], a[5]), R::new(a[6], a[7], a[8]));
            let m6 = |a: &[f64]| M6::new(R6::new(a[0], a[1], a[2]), R6::new(a[3], a[4], a[5]), R6::new(a[6], a[7], a[8]));
            let desc = format!("m32 a={:?} b={:?} v={:?} u={:?}", a32, b32, v32, u32v);
            macro_rules! chk { ($name:expr, $got:expr, $exact:expr, $tol:expr) => {{ let (got, exact, tol): (f64, f64, f64) = ($got, $exact, $tol); rep.evaluated += 1; let d = (got - exact).abs() / exact.abs().max(1.0); rep.note($name, d, tol); if !(d <= tol) { rep.fail(&format!("{} differs from the exact result", $name), desc.clone(), format!("{}", got), format!("{}", exact)); } }} }
            let mv = m(&a32).mul_vec(&Cv::new(v32[0], v32[1], v32[2])).values(); let ma = m(&a32).mul_arr(v32);
            for k in 0..3 { let e = ae[3 * k] * ve[0] + ae[3 * k + 1] * ve[1] + ae[3 * k + 2] * ve[2]; chk!("mul_vec", mv[k] as f64, e, 1e-5); chk!("mul_arr", ma[k] as f64, e, 1e-5); }
            let mm = m(&a32).mul_mat(m(&b32)).values(); let mm6 = m6(&a).mul_mat(m6(&b)).values();
            for i2 in 0..3 { for j in 0..3 { let e: f64 = (0..3).map(|k| ae[3 * i2 + k] * be[3 * k + j]).sum(); chk!("mul_mat", mm[i2][j] as f64, e, 1e-5); let e6: f64 = (0..3).map(|k| a[3 * i2 + k] * b[3 * k + j]).sum(); chk!("mul_mat f64", mm6[i2][j], e6, 1e-5); } }
            let tr = m(&a32).transpose().transpose().values(); for i2 in 0..3 { for j in 0..3 { if tr[i2][j].to_bits() != a32[3 * i2 + j].to_bits() { rep.fail("transpose is not an exact involution", desc.clone(), "".into(), "".into()); } } }
            let t1 = m(&a32).transpose().values(); for i2 in 0..3 { for j in 0..3 { if t1[i2][j].to_bits() != a32[3 * j + i2].to_bits() { rep.fail("transpose is wrong", desc.clone(), "".into(), "".into()); } } }
            let cr = R::new(v32[0], v32[1], v32[2]).cross(&R::new(u32v[0], u32v[1], u32v[2])).values(); let ce = [ve[1] * ue[2] - ve[2] * ue[1], ve[2] * ue[0] - ve[0] * ue[2], ve[0] * ue[1] - ve[1] * ue[0]];
            for k in 0..3 { chk!("cross", cr[k] as f64, ce[k], 1e-5); }
            chk!("dot", R::new(v32[0], v32[1], v32[2]).dot(&R::new(u32v[0], u32v[1], u32v[2])) as f64, ve[0] * ue[0] + ve[1] * ue[1] + ve[2] * ue[2], 1e-5);
            let cm = R::new(v32[0], v32[1], v32[2]).component_mul(&R::new(u32v[0], u32v[1], u32v[2])).values(); for k in 0..3 { chk!("component_mul", cm[k] as f64, ve[k] * ue[k], 1e-5); }
            if ue[0].abs() >= 0.05 { let sd = R::new(v32[0], v32[1], v32[2]).scalar_div(u32v[0]).values(); for k in 0..3 { chk!("scalar_div", sd[k] as f64, ve[k] / ue[0], 1e-5); } }
            let im = M::identity().mul_mat(m(&a32)).values(); let mi = m(&a32).mul_mat(M::identity()).values(); for i2 in 0..3 { for j in 0..3 { chk!("identity*A", im[i2][j] as f64, ae[3 * i2 + j], 1e-7); chk!("A*identity", mi[i2][j] as f64, ae[3 * i2 + j], 1e-7); } }
            let det = ae[0] * (ae[4] * ae[8] - ae[5] * ae[7]) - ae[1] * (ae[3] * ae[8] - ae[5] * ae[6]) + ae[2] * (ae[3] * ae[7] - ae[4] * ae[6]);
            if det.abs() >= 0.5 { let inv = m(&a32).invert().values(); let iv: Vec<f64> = inv.iter().flatten().map(|x| *x as f64).collect();
                for i2 in 0..3 { for j in 0..3 { let id = if i2 == j { 1.0 } else { 0.0 }; let e1: f64 = (0..3).map(|k| ae[3 * i2 + k] * iv[3 * k + j]).sum(); let e2: f64 = (0..3).map(|k| iv[3 * i2 + k] * ae[3 * k + j]).sum();
                    rep.evaluated += 2; let d = (e1 - id).abs().max((e2 - id).abs()); rep.note("A*inv(A)-I", d, 1e-4); if !(d <= 1e-4) { rep.fail("A*invert(A) differs from the identity", desc.clone(), format!("{} {}", e1, e2), format!("{}", id)); } } } }
            let det6 = a[0] * (a[4] * a[8] - a[5] * a[7]) - a[1] * (a[3] * a[8] - a[5] * a[6]) + a[2] * (a[3] * a[7] - a[4] * a[6]);
            if det6.abs() >= 0.5 { let inv = m6(&a).invert().values(); let iv: Vec<f64> = inv.iter().flatten().copied().collect();
                for i2 in 0..3 { for j in 0..3 { let id = if i2 == j { 1.0 } else { 0.0 }; let e1: f64 = (0..3).map(|k| a[3 * i2 + k] * iv[3 * k + j]).sum(); rep.evaluated += 1; let d = (e1 - id).abs(); rep.note("A*inv(A)-I f64", d, 1e-4); if !(d <= 1e-4) { rep.fail("f64 A*invert(A) differs from the identity", desc.clone(), format!("{}", e1), format!("{}", id)); } } } }
            let mv6 = m6(&a).mul_vec(&C6::new(v[0], v[1], v[2])).values(); for k in 0..3 { let e = a[3 * k] * v[0] + a[3 * k + 1] * v[1] + a[3 * k + 2] * v[2]; chk!("mul_vec f64", mv6[k], e, 1e-5); }
        }
        rep
    }).collect();
    let mut rep = Report::new(); for p in parts { rep.merge(p); } rep
}

pub fn search(prop: &str, seed: u64, tier: u32) -> Report {
    // tier 0 = quick, 1 = thorough (exhaustive where feasible), 2 = escalated quick (10x the quick budget)
    let pick = |q: usize, t: usize| -> usize { match tier { 0 => q, 1 => t, _ => (q * 10).min(t) } };
    match prop {
        "C01" | "C08" => c01_c08_c16(prop, seed, pick(20_000, 1 << 24)),
        "C16" => { let mut r = c01_c08_c16("C16", seed, 0); r.merge(c16_rest(seed, pick(50_000, 1 << 20))); r }
        "C02" => c02(seed, pick(20_000, 1_000_000)),
        "C03" | "C10" => crate::oracle2::c03_c10(prop, seed, pick(300_000, 1 << 30)),
        "C04" | "C05" => crate::oracle2::c04_c05(prop, seed, pick(2_000_000, 64_000_000)),
        "C06" => crate::oracle2::c06(seed, pick(200_000, 5_000_000)),
        "C07" => outcomes("C07", seed, tier),
        "C09" => c09(seed, pick(400_000, 8_000_000)),
        "C11" => c11(seed, pick(200_000, 3_000_000)),
        "C12" => c12(seed, tier),
        "C13" => { let mut r = outcomes("C13", seed, tier); r.merge(c13_codes(seed, pick(100_000, 2_000_000))); r }
        "C14" => c14(seed),
        "C15" => c15(seed, tier),
        "C17" => crate::oracle2::c17(seed, pick(2_000_000, 64_000_000)),
        "C18" => crate::oracle2::c18(seed, pick(4_000_000, 1usize << 32)),
        "C19" => c19(seed, pick(100_000, 2_000_000)),
        "C20" => { let mut r = Report::new(); for p in ["C01", "C02", "C03", "C04", "C05", "C06", "C08", "C10", "C17", "C18"] { let mut s = search(p, seed, 0); for f in &mut s.fails { f.what = format!("[{}] {}", p, f.what); } r.merge(s); } r }
        _ => Report { fails: vec![], evaluated: 0, worst: vec![] },
    }
}
