//! Failing-input search, part 2: transfer curves (C03, C10), XYB (C04, C05), primaries (C06), HSL (C17), math (C18).
use crate::exec::*;
use crate::gen::{any_floats, unit_floats, Rng, CP11, TC14};
use crate::oracle::{piecewise, piecewise_try, Px, Report};
use rayon::prelude::*;
use yuvxyb::*;

fn hx(x: f32) -> String { format!("{:08x}", x.to_bits()) }

pub fn lin(t: TransferCharacteristic, v: &[f32]) -> Result<Vec<f32>, ConversionError> {
    let data: Vec<[f32; 3]> = v.chunks(3).map(|c| [c[0], *c.get(1).unwrap_or(&0.0), *c.get(2).unwrap_or(&0.0)]).collect();
    let l = Px(piecewise_try(&data, &|d, w, h| LinearRgb::try_from(Rgb::new(d, w, h, t, ColorPrimaries::BT709).unwrap()).map(|l| l.into_data()))?);
    let mut out: Vec<f32> = l.data().iter().flat_map(|p| p.iter().copied()).collect();
    out.truncate(v.len());
    Ok(out)
}
pub fn gam(t: TransferCharacteristic, v: &[f32]) -> Result<Vec<f32>, ConversionError> {
    let data: Vec<[f32; 3]> = v.chunks(3).map(|c| [c[0], *c.get(1).unwrap_or(&0.0), *c.get(2).unwrap_or(&0.0)]).collect();
    let r = Px(piecewise_try(&data, &|d, w, h| Rgb::try_from((LinearRgb::new(d, w, h).unwrap(), t, ColorPrimaries::BT709)).map(|r| r.into_data()))?);
    let mut out: Vec<f32> = r.data().iter().flat_map(|p| p.iter().copied()).collect();
    out.truncate(v.len());
    Ok(out)
}
fn r709_oetf(x: f64) -> f64 { let a = 1.09929682680944; let b = 0.018053968510807; if x < b { 4.5 * x } else { a * x.powf(0.45) - (a - 1.0) } }
fn r709_inv(x: f64) -> f64 { let a = 1.09929682680944; let b = 0.018053968510807; if x < 4.5 * b { x / 4.5 } else { ((x + (a - 1.0)) / a).powf(1.0 / 0.45) } }
const PQ_OOTF: f64 = 59.49080238715383;
pub fn ref_lin(t: &str, x: f64) -> f64 {
    match t {
        "BT1886" | "ST170M" | "ST240M" | "BT2020Ten" | "BT2020Twelve" | "XVYCC" => x.powf(2.4),
        "BT470M" => x.powf(2.2), "BT470BG" => x.powf(2.8),
        "SRGB" => if x <= 0.04045 { x / 12.92 } else { ((x + 0.055) / 1.055).powf(2.4) },
        "Logarithmic100" => if x <= 0.0 { 0.01 } else { 10f64.powf(2.0 * (x - 1.0)) },
        "Logarithmic316" => if x <= 0.0 { 0.0031622776601683794 } else { 10f64.powf(2.5 * (x - 1.0)) },
        "Linear" => x,
        "PerceptualQuantizer" => {
            let (m1, m2, c1, c2, c3) = (0.1593017578125, 78.84375, 0.8359375, 18.8515625, 18.6875);
            let e = if x > 0.0 { let xp = x.powf(1.0 / m2); ((xp - c1).max(0.0) / (c2 - c3 * xp)).powf(1.0 / m1) } else { 0.0 };
            r709_inv((e * 100.0).powf(1.0 / 2.4)) / PQ_OOTF
        }
        "HybridLogGamma" => { let (a, b, c) = (0.17883277, 0.28466892, 0.55991073); if x <= 0.5 { x * x / 3.0 } else { (((x - c) / a).exp() + b) / 12.0 } }
        _ => f64::NAN,
    }
}
pub fn ref_gam(t: &str, x: f64) -> f64 {
    match t {
        "BT1886" | "ST170M" | "ST240M" | "BT2020Ten" | "BT2020Twelve" | "XVYCC" => x.powf(1.0 / 2.4),
        "BT470M" => x.powf(1.0 / 2.2), "BT470BG" => x.powf(1.0 / 2.8),
        "SRGB" => if x <= 0.0031308 { x * 12.92 } else { 1.055 * x.powf(1.0 / 2.4) - 0.055 },
        "Logarithmic100" => if x < 0.01 { 0.0 } else { 1.0 + x.log10() / 2.0 },
        "Logarithmic316" => if x < 0.0031622776601683794 { 0.0 } else { 1.0 + x.log10() / 2.5 },
        "Linear" => x,
        "PerceptualQuantizer" => {
            let (m1, m2, c1, c2, c3) = (0.1593017578125, 78.84375, 0.8359375, 18.8515625, 18.6875);
            let fd = r709_oetf(PQ_OOTF * x).powf(2.4) / 100.0;
            if fd > 0.0 { let xp = fd.powf(m1); ((c1 + c2 * xp) / (1.0 + c3 * xp)).powf(m2) } else { 0.0 }
        }
        "HybridLogGamma" => { let (a, b, c) = (0.17883277, 0.28466892, 0.55991073); if x <= 1.0 / 12.0 { (3.0 * x).sqrt() } else { a * (12.0 * x - b).ln() + c } }
        _ => f64::NAN,
    }
}

/// budget >= 2^30 means: every float of [0,1]
pub fn c03_c10(prop: &str, seed: u64, budget: usize) -> Report {
    let one = 1.0f32.to_bits();
    let parts: Vec<Report> = TC14.par_iter().enumerate().map(|(ti, &tn)| {
        let mut rep = Report::new();
        let t = tc_of(tn).unwrap();
        let mut r = Rng::new(seed ^ (ti as u64 * 31337));
        let exhaustive = budget >= (1 << 30);
        let chunks: Vec<Vec<f32>> = if exhaustive { (0..=one).step_by(1 << 22).map(|s| (s..(s + (1 << 22)).min(one + 1)).map(f32::from_bits).collect()).collect() } else { vec![unit_floats(&mut r, budget)] };
        for xs in chunks {
            let l = lin(t, &xs).unwrap(); let g = gam(t, &xs).unwrap(); let rt = gam(t, &l).unwrap();
            rep.evaluated += xs.len() as u64;
            // without fastmath (C20) every curve is within 5e-5 of its definition
            let nofast = !cfg!(feature = "fastmath");
            let (bl, bg) = if nofast && prop == "C03" { (5e-5, 5e-5) } else { (2.5e-4, if tn == "PerceptualQuantizer" { 5.7e-4 } else { 2.5e-4 }) };
            for i in 0..xs.len() {
                let x = xs[i] as f64;
                if prop == "C03" {
                    let el = (l[i] as f64 - ref_lin(tn, x)).abs(); let eg = (g[i] as f64 - ref_gam(tn, x)).abs();
                    rep.note(&format!("{} to_linear", tn), el, bl); rep.note(&format!("{} to_gamma", tn), eg, bg);
                    if !(el < bl) { rep.fail("gamma->linear differs from the defining curve", format!("tf lin {} {} {} {}", tn, hx(xs[i]), hx(xs[i]), hx(xs[i])), format!("{}", l[i]), format!("{}", ref_lin(tn, x))); }
                    if !(eg < bg) { rep.fail("linear->gamma differs from the defining curve", format!("tf gam {} {} {} {}", tn, hx(xs[i]), hx(xs[i]), hx(xs[i])), format!("{}", g[i]), format!("{}", ref_gam(tn, x))); }
                    if tn == "Linear" && (l[i].to_bits() != xs[i].to_bits() || g[i].to_bits() != xs[i].to_bits()) { rep.fail("Linear is not the bit-exact identity", format!("tf lin Linear {} {} {}", hx(xs[i]), hx(xs[i]), hx(xs[i])), format!("{}", l[i]), format!("{}", xs[i])); }
                } else {
                    let er = (rt[i] as f64 - x).abs(); rep.note(&format!("{} round trip", tn), er, bg);
                    if !(er < bg) { rep.fail("gamma->linear->gamma is not the identity within budget", format!("tf lin {} {} {} {}", tn, hx(xs[i]), hx(xs[i]), hx(xs[i])), format!("{}", rt[i]), format!("{}", x)); }
                }
            }
            if prop == "C03" && ["ST170M", "ST240M", "BT2020Ten", "BT2020Twelve"].contains(&tn) {
                let l0 = lin(TransferCharacteristic::BT1886, &xs).unwrap(); let g0 = gam(TransferCharacteristic::BT1886, &xs).unwrap();
                for i in 0..xs.len() { if l0[i].to_bits() != l[i].to_bits() || g0[i].to_bits() != g[i].to_bits() { rep.fail("alias of BT.1886 is not bit-identical", format!("tf lin {} {} {} {}", tn, hx(xs[i]), hx(xs[i]), hx(xs[i])), format!("{} {}", l[i], g[i]), format!("{} {}", l0[i], g0[i])); } }
            }
        }
        rep
    }).collect();
    let mut rep = Report::new(); for p in parts { rep.merge(p); } rep
}

pub fn ref_xyb(p: [f64; 3]) -> ([f64; 3], [f64; 3]) {
    let a = [[0.30, 0.622, 0.078], [0.23, 0.692, 0.078], [0.24342268924547819, 0.20476744424496821, 0.55180986650955360]];
    let b = 0.0037930732552754493f64;
    let mut mix = [0.0; 3]; let mut l = [0.0; 3];
    for i in 0..3 { mix[i] = a[i][0] * p[0] + a[i][1] * p[1] + a[i][2] * p[2] + b; l[i] = mix[i].max(0.0).cbrt() - b.cbrt(); }
    ([(l[0] - l[1]) / 2.0, (l[0] + l[1]) / 2.0, l[2]], mix)
}

pub fn c04_c05(prop: &str, seed: u64, budget: usize) -> Report {
    let parts: Vec<Report> = (0..16u64).into_par_iter().map(|th| {
        let mut rep = Report::new();
        let mut r = Rng::new(seed ^ (th * 977 + 5));
        let n = budget / 16 + 1;
        let mut px: Vec<[f32; 3]> = Vec::with_capacity(n);
        for i in 0..n {
            px.push(match (i % 8, prop) {
                (0, _) => [r.unit() * 1e-4, r.unit() * 1e-4, r.unit() * 1e-4],
                (1, _) => [r.unit() * 0.01, r.unit() * 0.01, r.unit() * 0.01],
                (2, _) | (3, _) => [r.unit(), r.unit(), r.unit()],
                (4, "C04") => [r.range(0.0, 4.0), r.range(0.0, 4.0), r.range(0.0, 4.0)],
                (5, "C04") => [r.range(-1.0, 4.0), r.range(-1.0, 4.0), r.range(-1.0, 4.0)],
                (6, "C04") => { let v = if i % 16 == 6 { r.unit() } else { r.range(-1.0, 4.0) }; match (i / 16) % 4 { 0 | 1 => [v, v, v], 2 => [v, v, r.range(-1.0, 4.0)], _ => [r.range(-1.0, 4.0), v, v] } }
                (6, _) => { let v = r.unit(); [v, v, v] }
                _ => { let c = if prop == "C04" { vec![0.0f32, 1.0, 4.0, 0.5, -1.0, -0.5, -0.01, -0.1] } else { vec![0.0f32, 1.0, 0.5] }; [*r.pick(&c), *r.pick(&c), *r.pick(&c)] }
            });
        }
        // self-feeding pairs: a pixel followed by a pixel that EQUALS the first one's converted value (a conversion that keeps
        // state between pixels - a cache keyed on the wrong value, a run shortcut - is visible only on such sequences)
        for j in 0..96usize {
            let v = r.unit(); let w = r.unit();
            let base = match j % 4 { 0 => [v, v, v], 1 => [v, v, w], 2 => [*r.pick(&[0.0f32, 1.0, 0.5]), *r.pick(&[0.0f32, 1.0, 0.5]), *r.pick(&[0.0f32, 1.0, 0.5])], _ => [v, w, r.unit()] };
            let o = Xyb::from(LinearRgb::new(vec![base], 1, 1).unwrap()).data()[0];
            if o.iter().all(|c| *c >= 0.0 && *c <= 1.0) { px.push(base); px.push(o); px.push(base); }
        }
        // the image ends with signed (admissible) pixels, so that whatever tail a blocked implementation handles separately
        // contains pixels with negative opsin mixes
        if prop == "C04" { for j in 0..19usize { px.push(match j % 3 { 0 => [-1.0, -1.0, -1.0], 1 => [1.0, 1.0, -1.0], _ => [-0.5, -0.25, -1.0] }); } }
        { let n7 = px.len().min(7); let x7 = Xyb::from(LinearRgb::new(px[..n7].to_vec(), n7, 1).unwrap());
          if x7.width() != n7 || x7.height() != 1 { rep.fail("dimensions not preserved", "xyb".into(), "".into(), "".into()); } }
        let xyb = Px(piecewise(&px, &|d, w, h| { let x = Xyb::from(LinearRgb::new(d, w, h).unwrap()); if x.width() != w || x.height() != h { vec![] } else { x.into_data() } }));
        rep.evaluated += px.len() as u64;
        if prop == "C04" {
            for (p, o) in px.iter().zip(xyb.data().iter()) {
                let (e, mix) = ref_xyb([p[0] as f64, p[1] as f64, p[2] as f64]);
                let incube = p.iter().all(|c| *c >= 0.0 && *c <= 4.0);
                if !incube && !mix.iter().all(|m| *m <= -1e-3 || *m >= 0.05) { continue; }
                for k in 0..3 { let d = (o[k] as f64 - e[k]).abs(); rep.note("xyb abs err", d, 2e-6);
                    if !(d <= 2e-6) { rep.fail("XYB differs from the libjxl opsin definition", format!("xyb {} {} {}", hx(p[0]), hx(p[1]), hx(p[2])), format!("{:?}", o), format!("{:?}", e)); } }
            }
        } else {
            let back = Px(piecewise(xyb.data(), &|d, w, h| LinearRgb::from(Xyb::new(d, w, h).unwrap()).into_data()));
            for (p, o) in px.iter().zip(back.data().iter()) {
                for k in 0..3 { let d = (o[k] as f64 - p[k] as f64).abs(); rep.note("xyb round trip", d, 5e-5);
                    if !(d <= 5e-5) { rep.fail("XYB->linear RGB does not invert the forward transform", format!("xyb {} {} {}", hx(p[0]), hx(p[1]), hx(p[2])), format!("{:?}", o), format!("{:?}", p)); } }
            }
        }
        rep
    }).collect();
    let mut rep = Report::new(); for p in parts { rep.merge(p); } rep
}

// --- primaries: exact derivation in f64 ---------------------------------------------------------------
type M = [[f64; 3]; 3];
fn mmul(a: &M, b: &M) -> M { let mut o = [[0.0; 3]; 3]; for i in 0..3 { for j in 0..3 { for k in 0..3 { o[i][j] += a[i][k] * b[k][j]; } } } o }
fn mvec(a: &M, v: [f64; 3]) -> [f64; 3] { [a[0][0] * v[0] + a[0][1] * v[1] + a[0][2] * v[2], a[1][0] * v[0] + a[1][1] * v[1] + a[1][2] * v[2], a[2][0] * v[0] + a[2][1] * v[1] + a[2][2] * v[2]] }
fn minv(m: &M) -> M {
    let d = m[0][0] * (m[1][1] * m[2][2] - m[1][2] * m[2][1]) - m[0][1] * (m[1][0] * m[2][2] - m[1][2] * m[2][0]) + m[0][2] * (m[1][0] * m[2][1] - m[1][1] * m[2][0]);
    let c = |a: usize, b: usize, cc: usize, dd: usize| m[a][b] * m[cc][dd];
    [[(c(1, 1, 2, 2) - c(1, 2, 2, 1)) / d, (c(0, 2, 2, 1) - c(0, 1, 2, 2)) / d, (c(0, 1, 1, 2) - c(0, 2, 1, 1)) / d],
     [(c(1, 2, 2, 0) - c(1, 0, 2, 2)) / d, (c(0, 0, 2, 2) - c(0, 2, 2, 0)) / d, (c(0, 2, 1, 0) - c(0, 0, 1, 2)) / d],
     [(c(1, 0, 2, 1) - c(1, 1, 2, 0)) / d, (c(0, 1, 2, 0) - c(0, 0, 2, 1)) / d, (c(0, 0, 1, 1) - c(0, 1, 1, 0)) / d]]
}
fn xy(p: &str) -> Option<[[f64; 2]; 3]> {
    Some(match p { "BT470M" => [[0.67, 0.33], [0.21, 0.71], [0.14, 0.08]], "BT470BG" => [[0.64, 0.33], [0.29, 0.60], [0.15, 0.06]],
        "ST170M" | "ST240M" => [[0.630, 0.340], [0.310, 0.595], [0.155, 0.070]], "BT709" => [[0.64, 0.33], [0.30, 0.60], [0.15, 0.06]],
        "Film" => [[0.681, 0.319], [0.243, 0.692], [0.145, 0.049]], "BT2020" => [[0.708, 0.292], [0.170, 0.797], [0.131, 0.046]],
        "P3DCI" | "P3Display" => [[0.680, 0.320], [0.265, 0.690], [0.150, 0.060]], "Tech3213" => [[0.630, 0.340], [0.295, 0.605], [0.155, 0.077]], _ => return None })
}
fn white(p: &str) -> [f64; 3] {
    let w = match p { "BT470M" | "Film" => [0.31, 0.316], "ST428" => [1.0 / 3.0, 1.0 / 3.0], "P3DCI" => [0.314, 0.351], _ => [0.3127, 0.3290] };
    [w[0] / w[1], 1.0, (1.0 - w[0] - w[1]) / w[1]]
}
fn rgb2xyz(p: &str) -> M {
    if p == "ST428" { return [[1.0, 0.0, 0.0], [0.0, 1.0, 0.0], [0.0, 0.0, 1.0]]; }
    let c = xy(p).unwrap();
    let col = |q: [f64; 2]| [q[0] / q[1], 1.0, (1.0 - q[0] - q[1]) / q[1]];
    let (r, g, b) = (col(c[0]), col(c[1]), col(c[2]));
    let m = [[r[0], g[0], b[0]], [r[1], g[1], b[1]], [r[2], g[2], b[2]]];
    let s = mvec(&minv(&m), white(p));
    [[m[0][0] * s[0], m[0][1] * s[1], m[0][2] * s[2]], [m[1][0] * s[0], m[1][1] * s[1], m[1][2] * s[2]], [m[2][0] * s[0], m[2][1] * s[1], m[2][2] * s[2]]]
}
pub fn ref_prim(pin: &str, pout: &str) -> M {
    let br = [[0.8951, 0.2664, -0.1614], [-0.7502, 1.7135, 0.0367], [0.0389, -0.0685, 1.0296]];
    let (wi, wo) = (white(pin), white(pout));
    let ad = if wi == wo { [[1.0, 0.0, 0.0], [0.0, 1.0, 0.0], [0.0, 0.0, 1.0]] } else {
        let (ri, ro) = (mvec(&br, wi), mvec(&br, wo));
        let d = [[ro[0] / ri[0], 0.0, 0.0], [0.0, ro[1] / ri[1], 0.0], [0.0, 0.0, ro[2] / ri[2]]];
        mmul(&mmul(&minv(&br), &d), &br) };
    mmul(&mmul(&minv(&rgb2xyz(pout)), &ad), &rgb2xyz(pin))
}
fn prim_api(p: ColorPrimaries, to709: bool, px: &[[f32; 3]]) -> Vec<[f32; 3]> {
    if to709 { piecewise(px, &|d, w, h| LinearRgb::try_from(Rgb::new(d, w, h, TransferCharacteristic::Linear, p).unwrap()).unwrap().into_data()) }
    else { piecewise(px, &|d, w, h| Rgb::try_from((LinearRgb::new(d, w, h).unwrap(), TransferCharacteristic::Linear, p)).unwrap().into_data()) }
}
pub fn c06(seed: u64, budget: usize) -> Report {
    let parts: Vec<Report> = CP11.par_iter().enumerate().map(|(pi, &pn)| {
        let mut rep = Report::new();
        let mut r = Rng::new(seed ^ (pi as u64 * 6151));
        let p = cp_of(pn).unwrap();
        let mut px: Vec<[f32; 3]> = vec![[1.0, 1.0, 1.0], [0.0, 0.0, 0.0], [0.5, 0.5, 0.5]];
        let cs = [-0.5f32, 0.0, 1.0, 2.0];
        for a in cs { for b in cs { for c in cs { px.push([a, b, c]); } } }
        while px.len() < budget { px.push([r.range(-0.5, 2.0), r.range(-0.5, 2.0), r.range(-0.5, 2.0)]); }
        for to709 in [true, false] {
            let o = prim_api(p, to709, &px);
            let m = if to709 { ref_prim(pn, "BT709") } else { ref_prim("BT709", pn) };
            let back = prim_api(p, !to709, &o);
            rep.evaluated += px.len() as u64;
            for i in 0..px.len() {
                let q = px[i];
                let e = mvec(&m, [q[0] as f64, q[1] as f64, q[2] as f64]);
                let line = format!("prim {} {} {} {} {}", if to709 { "to709" } else { "from709" }, pn, hx(q[0]), hx(q[1]), hx(q[2]));
                if pn == "BT709" { if (0..3).any(|k| o[i][k].to_bits() != q[k].to_bits()) { rep.fail("identical primaries changed the data", line.clone(), format!("{:?}", o[i]), format!("{:?}", q)); } }
                for k in 0..3 {
                    let d = (o[i][k] as f64 - e[k]).abs() / e[k].abs().max(1.0); rep.note("primaries rel err", d, 1e-5);
                    if !(d <= 1e-5) { rep.fail("primaries conversion differs from the CIE derivation", line.clone(), format!("{:?}", o[i]), format!("{:?}", e)); }
                    let db = (back[i][k] as f64 - q[k] as f64).abs(); rep.note("there-and-back", db, 1e-5);
                    if !(db <= 1e-5) { rep.fail("converting there and back does not return the input", line.clone(), format!("{:?}", back[i]), format!("{:?}", q)); }
                    if i == 0 { let dw = (o[i][k] as f64 - 1.0).abs(); rep.note("white", dw, 1e-5); if !(dw <= 1e-5) { rep.fail("white does not map to white", line.clone(), format!("{:?}", o[i]), "1 1 1".into()); } }
                }
            }
        }
        rep
    }).collect();
    let mut rep = Report::new(); for p in parts { rep.merge(p); } rep
}

fn ref_hsl(p: [f32; 3]) -> (f64, f64, f64) {
    let (r, g, b) = (p[0] as f64, p[1] as f64, p[2] as f64); let mx = r.max(g).max(b); let mn = r.min(g).min(b); let c = mx - mn; let l = (mx + mn) / 2.0;
    let h = if c == 0.0 { 0.0 } else if mx == r { let t = 60.0 * ((g - b) / c); if t < 0.0 { t + 360.0 } else { t } } else if mx == g { 60.0 * (2.0 + (b - r) / c) } else { 60.0 * (4.0 + (r - g) / c) };
    let s = if l == 0.0 || l == 1.0 { 0.0 } else { (mx - mn) / (1.0 - (2.0 * l - 1.0).abs()) };
    (h, s, l)
}
pub fn c17(seed: u64, budget: usize) -> Report {
    let parts: Vec<Report> = (0..16u64).into_par_iter().map(|th| {
        let mut rep = Report::new();
        let mut r = Rng::new(seed ^ (th * 15485863 + 3));
        let n = budget / 16 + 1;
        let mut px = Vec::with_capacity(n);
        for i in 0..n {
            let mut p = [r.unit(), r.unit(), r.unit()];
            match i % 8 { 0 => { p = [(r.below(256) as f32) / 255.0, (r.below(256) as f32) / 255.0, (r.below(256) as f32) / 255.0]; } 1 => p[1] = p[0], 2 => p[2] = p[0] * (1.0 + 1e-7),
                3 => { for c in &mut p { *c *= 1e-3; } } 4 => { for c in &mut p { *c = 1.0 - *c * 1e-3; } } 5 => p[1] = 0.0, 6 => { p[0] = 1.0; p[1] = p[2] * (1.0 - 1e-6); } _ => {} }
            for c in &mut p { *c = c.clamp(0.0, 1.0); }
            px.push(p);
        }
        // self-feeding pairs (see c04_c05): a pixel followed by one that equals its HSL triple, and the reverse for the inverse
        for j in 0..96usize {
            let v = r.unit();
            let base = match j % 4 { 0 => [v, v, v], 1 => [1.0, 0.0, 0.0], 2 => [*r.pick(&[0.0f32, 1.0, 0.5]), *r.pick(&[0.0f32, 1.0, 0.5]), *r.pick(&[0.0f32, 1.0, 0.5])], _ => [v, v, r.unit()] };
            let o = Hsl::from(LinearRgb::new(vec![base], 1, 1).unwrap()).data()[0];
            if o.iter().all(|c| *c >= 0.0 && *c <= 1.0) { px.push(base); px.push(o); px.push(base); }
        }
        let h = Px(piecewise(&px, &|d, w, hh| Hsl::from(LinearRgb::new(d, w, hh).unwrap()).into_data()));
        let back = Px(piecewise(h.data(), &|d, w, hh| LinearRgb::from(Hsl::new(d, w, hh).unwrap()).into_data()));
        rep.evaluated += px.len() as u64;
        for i in 0..px.len() {
            let o = h.data()[i]; let (rh, rs, rl) = ref_hsl(px[i]); let line = format!("hsl {} {} {}", hx(px[i][0]), hx(px[i][1]), hx(px[i][2]));
            let mx = px[i][0].max(px[i][1]).max(px[i][2]); let mn = px[i][0].min(px[i][1]).min(px[i][2]);
            if !(o[0] >= 0.0 && o[0] < 360.0 && o[1] >= 0.0 && o[1] <= 1.0 && o[2] >= 0.0 && o[2] <= 1.0) { rep.fail("HSL out of range", line.clone(), format!("{:?}", o), "H in [0,360), S,L in [0,1]".into()); }
            let dl = (o[2] as f64 - rl).abs(); rep.note("L err", dl, 1e-6); if !(dl <= 1e-6) { rep.fail("L differs from hexcone", line.clone(), format!("{:?}", o), format!("{}", rl)); }
            if rl >= 0.01 && rl <= 0.99 { let ds = (o[1] as f64 - rs).abs(); rep.note("S err", ds, 1e-4); if !(ds <= 1e-4) { rep.fail("S differs from hexcone", line.clone(), format!("{:?}", o), format!("{}", rs)); } }
            if (mx - mn) as f64 >= 0.01 { let d = (o[0] as f64 - rh).abs(); let d = d.min(360.0 - d); rep.note("H err", d, 0.01); if !(d <= 0.01) { rep.fail("H differs from hexcone", line.clone(), format!("{:?}", o), format!("{}", rh)); } }
            if mx == mn && !(o[0] == 0.0 && o[1] == 0.0 && o[2].to_bits() == mx.to_bits()) { rep.fail("grey is not (0,0,v)", line.clone(), format!("{:?}", o), format!("0 0 {}", mx)); }
            for c in 0..3 { let d = (back.data()[i][c] - px[i][c]).abs() as f64; rep.note("HSL round trip", d, 1e-5); if !(d <= 1e-5) { rep.fail("HSL round trip exceeds 1e-5", line.clone(), format!("{:?}", back.data()[i]), format!("{:?}", px[i])); } }
        }
        // L = 0 is black, L = 1 is white
        let mut q = Vec::new();
        for _ in 0..(n / 4 + 1) { let hh = { let h = r.unit() * 360.0; if h >= 360.0 { 0.0 } else { h } }; q.push([hh, r.unit(), 0.0]); q.push([hh, r.unit(), 1.0]); q.push([hh, 1.0, 0.0]); q.push([hh, 1.0, 1.0]); }
        let o = Px(piecewise(&q, &|d, w, hh| LinearRgb::from(Hsl::new(d, w, hh).unwrap()).into_data()));
        rep.evaluated += q.len() as u64;
        for i in 0..q.len() { let e = q[i][2]; if o.data()[i].iter().any(|c| *c != e) { rep.fail("L=0/1 is not black/white", format!("ihsl {} {} {}", hx(q[i][0]), hx(q[i][1]), hx(q[i][2])), format!("{:?}", o.data()[i]), format!("{}", e)); } }
        rep
    }).collect();
    let mut rep = Report::new(); for p in parts { rep.merge(p); } rep
}

fn ulp32(x: f32) -> f64 { let b = x.abs().to_bits(); (f32::from_bits(b + 1) - f32::from_bits(b)) as f64 }
/// budget >= 2^32: all normal floats for cbrtf and all floats for expf
pub fn c18(seed: u64, budget: usize) -> Report {
    let exhaustive = budget >= (1usize << 32);
    let nchunks = 256u64;
    let parts: Vec<Report> = (0..nchunks).into_par_iter().map(|ch| {
        let mut rep = Report::new();
        let mut r = Rng::new(seed ^ (ch * 2654435761 + 1));
        let xs: Vec<f32> = if exhaustive { let lo = ch << 24; (lo..lo + (1 << 24)).map(|b| f32::from_bits(b as u32)).collect() } else { (0..budget as u64 / nchunks + 1).map(|_| f32::from_bits(r.next() as u32)).collect() };
        for &x in &xs {
            rep.evaluated += 1;
            if x.is_normal() {
                let c = yuvxyb_math::cbrtf(x); let e = (x as f64).cbrt(); let d = (c as f64 - e).abs() / ulp32(c).max(f64::MIN_POSITIVE);
                rep.note("cbrtf ulp", d, 1.0);
                if !(d <= 1.0) { rep.fail("cbrtf off by more than 1 ulp", format!("cbrtf {}", hx(x)), format!("{}", c), format!("{}", e)); }
                if yuvxyb_math::cbrtf(-x).to_bits() != (-c).to_bits() { rep.fail("cbrtf is not odd", format!("cbrtf {}", hx(x)), format!("{}", yuvxyb_math::cbrtf(-x)), format!("{}", -c)); }
            }
            let ex = yuvxyb_math::expf(x);
            if !cfg!(feature = "fastmath") {
                // C20: with fastmath off the helpers are libm (agreement within 2 ulp)
                let u = |a: f32, b: f32| -> bool { a.to_bits() == b.to_bits() || (a.is_nan() && b.is_nan()) || ((a.to_bits() as i64) - (b.to_bits() as i64)).abs() <= 2 };
                if !u(ex, x.exp()) { rep.fail("expf differs from libm by more than 2 ulp", format!("expf {}", hx(x)), format!("{}", ex), format!("{}", x.exp())); }
                if !u(yuvxyb_math::cbrtf(x), x.cbrt()) { rep.fail("cbrtf differs from libm by more than 2 ulp", format!("cbrtf {}", hx(x)), format!("{}", yuvxyb_math::cbrtf(x)), format!("{}", x.cbrt())); }
                let y = f32::from_bits(x.to_bits().rotate_left(7)); if !u(yuvxyb_math::powf(x, y), x.powf(y)) { rep.fail("powf differs from libm by more than 2 ulp", format!("powf {} {}", hx(x), hx(y)), "".into(), "".into()); }
                continue;
            }
            if x >= -85.0 && x <= 85.0 { let e = (x as f64).exp(); let d = (ex as f64 / e - 1.0).abs(); rep.note("expf rel", d, 1e-5); if !(d <= 1e-5) { rep.fail("expf relative error above 1e-5", format!("expf {}", hx(x)), format!("{}", ex), format!("{}", e)); } }
            if x >= 89.0 && x <= 1e38 && ex != f32::INFINITY { rep.fail("expf does not overflow to +inf", format!("expf {}", hx(x)), format!("{}", ex), "inf".into()); }
            if x <= -88.0 && x >= -1e38 && ex != 0.0 { rep.fail("expf does not underflow to 0", format!("expf {}", hx(x)), format!("{}", ex), "0".into()); }
        }
        // powf: positive normal x, |y| <= 80, true result in [1e-35, 1e35]
        let ys = [2.4f32, 1.0 / 2.4, 2.2, 1.0 / 2.2, 2.8, 1.0 / 2.8, 0.45, 1.0 / 0.45, 0.159_301_76, 78.84375, 1.0 / 78.84375, 1.0 / 0.159_301_76, 1.0, -1.0, 0.5, 3.0, 80.0, -80.0];
        let np = if exhaustive { 1 << 22 } else { xs.len() };
        for i in 0..np {
            let y = if i % 3 == 0 { r.range(-80.0, 80.0) } else { *r.pick(&ys) };
            let x = match i % 4 { 0 => f32::from_bits(((1 + r.below(254)) << 23 | r.below(1 << 23)) as u32), 1 => r.unit().max(f32::MIN_POSITIVE), 2 => r.range(0.5, 2.0), _ => r.range(f32::MIN_POSITIVE, 100.0) };
            let e = (x as f64).powf(y as f64);
            if !(e >= 1e-35 && e <= 1e35) { continue; }
            rep.evaluated += 1;
            let o = yuvxyb_math::powf(x, y); let d = (o as f64 / e - 1.0).abs(); let b = 2.5e-4 + 8e-6 * (y.abs() as f64);
            rep.note("powf rel / budget", d / b, 1.0);
            if !(d <= b) { rep.fail("powf relative error above 2.5e-4 + 8e-6|y|", format!("powf {} {}", hx(x), hx(y)), format!("{}", o), format!("{}", e)); }
        }
        rep
    }).collect();
    let mut rep = Report::new(); for p in parts { rep.merge(p); }
    // totality on specials (a panic or hook assertion aborts the batch and is reported by the caller)
    let mut r = Rng::new(seed);
    for x in any_floats(&mut r, 4000) { for y in [f32::NAN, f32::INFINITY, -f32::INFINITY, 0.0, 2.4] {
        for line in [format!("powf {} {}", hx(x), hx(y)), format!("powf {} {}", hx(y), hx(x)), format!("expf {}", hx(x)), format!("cbrtf {}", hx(x))] {
            let o = exec_line(&line); rep.evaluated += 1; if !o.starts_with("ok") { rep.fail("math helper is not total", line, o, "ok".into()); } } } }
    rep
}
