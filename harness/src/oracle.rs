//! Failing-input search: tests each property *statement* directly on the implementation against an independent
//! f64 / integer oracle. Supports the proof machinery (it never stands in for a theorem): it runs on every check
//! and again, focused, when a proof obligation or the correspondence breaks.
use crate::exec::*;
use crate::gen::{Rng, STD7};
use rayon::prelude::*;
use yuvxyb::*;

#[derive(Clone, Debug)]
pub struct Fail {
    pub what: String,
    pub input: String,
    pub observed: String,
    pub expected: String,
}
impl Fail {
    pub fn json(&self, prop: &str) -> String {
        let esc = |s: &str| s.replace('\\', "\\\\").replace('"', "\\\"");
        format!("{{\"property\":\"{}\",\"what\":\"{}\",\"input\":\"{}\",\"observed\":\"{}\",\"expected\":\"{}\"}}", prop, esc(&self.what), esc(&self.input), esc(&self.observed), esc(&self.expected))
    }
}
pub struct Report {
    pub fails: Vec<Fail>,
    pub evaluated: u64,
    pub worst: Vec<(String, f64, f64)>, // (quantity, worst observed, budget)
}
impl Report {
    pub fn new() -> Self { Report { fails: vec![], evaluated: 0, worst: vec![] } }
    pub fn merge(&mut self, o: Report) {
        self.evaluated += o.evaluated;
        for f in o.fails { if self.fails.len() < 50 { self.fails.push(f); } }
        for (k, w, b) in o.worst {
            if let Some(e) = self.worst.iter_mut().find(|e| e.0 == k) { if w > e.1 || w.is_nan() { e.1 = w; } } else { self.worst.push((k, w, b)); }
        }
    }
    pub fn note(&mut self, k: &str, w: f64, b: f64) {
        if let Some(e) = self.worst.iter_mut().find(|e| e.0 == k) { if w > e.1 || w.is_nan() { e.1 = w; } } else { self.worst.push((k.to_string(), w, b)); }
    }
    pub fn fail(&mut self, what: &str, input: String, observed: String, expected: String) {
        if self.fails.len() < 50 { self.fails.push(Fail { what: what.into(), input, observed, expected }); }
    }
}

pub fn krkb(m: &str) -> Option<(f64, f64)> {
    Some(match m { "BT709" => (0.2126, 0.0722), "BT470M" => (0.30, 0.11), "BT470BG" | "ST170M" => (0.299, 0.114), "ST240M" => (0.212, 0.087),
        "BT2020NonConstantLuminance" => (0.2627, 0.0593), _ => return None })
}
fn hx(x: f32) -> String { format!("{:08x}", x.to_bits()) }

/// H.273 normalisation of a code
pub fn norm(code: f64, bd: u32, full: bool, chroma: bool) -> f64 {
    let k = (1u64 << (bd - 8)) as f64; let max = ((1u64 << bd) - 1) as f64;
    if chroma {
        let v = if full { (code - (1u64 << (bd - 1)) as f64) / max } else { (code - 128.0 * k) / (224.0 * k) };
        v.clamp(-0.5, 0.5)
    } else {
        let v = if full { code / max } else { (code - 16.0 * k) / (219.0 * k) };
        v.clamp(0.0, 1.0)
    }
}
pub fn ref_decode(m: &str, y: f64, cb: f64, cr: f64) -> [f64; 3] {
    if m == "YCgCo" { let (cg, co) = (cb, cr); return [y - cg + co, y + cg, y - cg - co]; }
    let (kr, kb) = krkb(m).unwrap(); let kg = 1.0 - kr - kb;
    let r = y + 2.0 * (1.0 - kr) * cr; let b = y + 2.0 * (1.0 - kb) * cb; let g = (y - kr * r - kb * b) / kg;
    [r, g, b]
}
pub fn ref_encode(m: &str, rgb: [f64; 3]) -> [f64; 3] {
    if m == "YCgCo" { let [r, g, b] = rgb; return [0.25 * r + 0.5 * g + 0.25 * b, -0.25 * r + 0.5 * g - 0.25 * b, 0.5 * r - 0.5 * b]; }
    let (kr, kb) = krkb(m).unwrap(); let kg = 1.0 - kr - kb;
    let y = kr * rgb[0] + kg * rgb[1] + kb * rgb[2];
    [y, (rgb[2] - y) / (2.0 * (1.0 - kb)), (rgb[0] - y) / (2.0 * (1.0 - kr))]
}
pub fn quant(v: f64, bd: u32, full: bool, chroma: bool) -> f64 {
    let k = (1u64 << (bd - 8)) as f64; let max = ((1u64 << bd) - 1) as f64;
    let q = if chroma { if full { max * v + (1u64 << (bd - 1)) as f64 } else { 224.0 * k * v + 128.0 * k } } else if full { max * v } else { 219.0 * k * v + 16.0 * k };
    q.clamp(0.0, max)
}

pub fn yuv444<T: Pixel>(codes: &[[u32; 3]], cfg: YuvConfig) -> Yuv<T> {
    let w = codes.len();
    let mut planes: [Plane<T>; 3] = [Plane::new(w, 1, 0, 0, 0, 0), Plane::new(w, 1, 0, 0, 0, 0), Plane::new(w, 1, 0, 0, 0, 0)];
    for (pi, p) in planes.iter_mut().enumerate() { let o = p.data_origin_mut(); for (i, c) in codes.iter().enumerate() { o[i] = T::cast_from(c[pi] as u16); } }
    Yuv::new(Frame { planes }, cfg).unwrap()
}
/// Applies a float-image conversion piecewise: `px` is cut into consecutive pieces whose lengths run through the residues of
/// every small block size (1..9, 15..17, 31, 33, 63, 65, 97, 255, 1021, 4099, and a long piece now and then) and whose shapes
/// vary (one row, one column, two rows, three rows). A conversion that treats blocks, tails, rows or the whole buffer
/// specially (vectorised loops, overlapping tails, remainders left unprocessed) meets every case; a pointwise conversion
/// gives the same pixels as on one long row.
pub fn piecewise_try<E>(px: &[[f32; 3]], f: &dyn Fn(Vec<[f32; 3]>, usize, usize) -> Result<Vec<[f32; 3]>, E>) -> Result<Vec<[f32; 3]>, E> {
    const LENS: [usize; 20] = [1, 2, 3, 4, 5, 6, 7, 8, 9, 15, 16, 17, 31, 33, 63, 65, 97, 255, 1021, 4099];
    let mut out = Vec::with_capacity(px.len()); let (mut i, mut k) = (0usize, 0usize);
    while i < px.len() {
        let l = (if k % 21 == 20 { 60_000 } else { LENS[k % 21 % 20] }).min(px.len() - i);
        let (w, h) = match k % 4 { 1 => (1, l), 2 if l % 2 == 0 => (l / 2, 2), 3 if l % 3 == 0 => (l / 3, 3), _ => (l, 1) };
        let mut o = f(px[i..i + l].to_vec(), w, h)?;
        o.resize(l, [f32::NAN; 3]);
        out.extend(o); i += l; k += 1;
    }
    Ok(out)
}
pub fn piecewise(px: &[[f32; 3]], f: &dyn Fn(Vec<[f32; 3]>, usize, usize) -> Vec<[f32; 3]>) -> Vec<[f32; 3]> {
    match piecewise_try::<()>(px, &|d, w, h| Ok(f(d, w, h))) { Ok(v) => v, Err(()) => unreachable!() }
}
/// pixel data with the `.data()` accessor of the image types
pub struct Px(pub Vec<[f32; 3]>);
impl Px { pub fn data(&self) -> &[[f32; 3]] { &self.0 } }

pub fn codes_of<T: Pixel>(y: &Yuv<T>) -> Vec<[u32; 3]> {
    let w = y.width();
    (0..w).map(|i| [u16::cast_from(y.data()[0].data_origin()[i]) as u32, u16::cast_from(y.data()[1].data_origin()[i]) as u32, u16::cast_from(y.data()[2].data_origin()[i]) as u32]).collect()
}

fn sample_codes(r: &mut Rng, bd: u32, n: usize) -> Vec<[u32; 3]> {
    let max = (1u64 << bd) - 1;
    let k = 1u64 << (bd - 8);
    let edge: Vec<u64> = vec![0, 1, max / 2, max / 2 + 1, max / 2 + 2, max - 1, max, 16 * k, 16 * k + 1, 235 * k, 240 * k, 128 * k].into_iter().filter(|x| *x <= max).collect();
    let mut v = Vec::with_capacity(n);
    for a in &edge { for b in &edge { for c in [max / 2 + 1, 0, max] { v.push([*a as u32, *b as u32, c as u32]); v.push([*a as u32, c as u32, *b as u32]); } } }
    while v.len() < n { v.push([r.below(max + 1) as u32, r.below(max + 1) as u32, r.below(max + 1) as u32]); }
    v
}

fn cfgs() -> Vec<(&'static str, bool, u32, u32)> {
    let mut v = vec![];
    for m in STD7 { for full in [false, true] { for bd in 8..=16u32 { v.push((m, full, bd, 2)); if bd == 8 { v.push((m, full, bd, 1)); } } } }
    v
}

/// width of the multi-row layout used for every other chunk (not a multiple of any plane alignment, so stride != width)
pub const LAYW: usize = 97;
/// the same codes as a LAYW-wide multi-row 4:4:4 frame whose three planes have different paddings (hence different strides
/// and origins); the tail of the last row is filled with mid-grey
/// layout modes: 1 = 97 wide, a different padding per plane; 2 = 97 wide, one shared padded layout (stride != width);
/// 3 = a single column (chroma planes one sample wide, many rows); 4 = 64 wide, no horizontal padding (stride == width) but
/// rows of vertical padding above the picture
pub fn lay_width(mode: u8) -> usize { match mode { 3 => 1, 4 => 64, _ => LAYW } }

pub fn yuv444_mode<T: Pixel>(codes: &[[u32; 3]], cfg: YuvConfig, mode: u8) -> Yuv<T> {
    let w = lay_width(mode); let h = (codes.len() + w - 1) / w; let mid = 1u32 << (cfg.bit_depth - 1);
    let pads = match mode { 2 | 3 => [(0usize, 0usize); 3], 4 => [(0usize, 3usize), (0, 3), (0, 3)], _ => [(0usize, 0usize), (16, 3), (40, 1)] };
    let mk = |pi: usize| { let mut p: Plane<T> = Plane::new(w, h, 0, 0, pads[pi].0, pads[pi].1);
        for s in p.data.iter_mut() { *s = T::cast_from(77u16); }
        let stride = p.cfg.stride; let o = p.data_origin_mut();
        for i in 0..w * h { let c = if i < codes.len() { codes[i][pi] } else { mid }; o[(i / w) * stride + i % w] = T::cast_from(c as u16); } p };
    Yuv::new(Frame { planes: [mk(0), mk(1), mk(2)] }, cfg).unwrap()
}
pub fn codes_of_rows<T: Pixel>(y: &Yuv<T>, n: usize) -> Vec<[u32; 3]> {
    let w = y.width();
    (0..n).map(|i| { let g = |pi: usize| { let p = &y.data()[pi]; u16::cast_from(p.data_origin()[(i / w) * p.cfg.stride + i % w]) as u32 }; [g(0), g(1), g(2)] }).collect()
}

fn with_yuv<R>(ts: u32, rows: u8, codes: &[[u32; 3]], cfg: YuvConfig, f8: impl FnOnce(&Yuv<u8>) -> R, f16: impl FnOnce(&Yuv<u16>) -> R) -> R {
    if rows > 0 { if ts == 1 { f8(&yuv444_mode::<u8>(codes, cfg, rows)) } else { f16(&yuv444_mode::<u16>(codes, cfg, rows)) } }
    else if ts == 1 { f8(&yuv444::<u8>(codes, cfg)) } else { f16(&yuv444::<u16>(codes, cfg)) }
}

/// the matrices whose coefficients the crate derives from the colour primaries, with the primaries they accept
pub const DERIVED5: [&str; 5] = ["Identity", "BT2020ConstantLuminance", "ChromaticityDerivedConstantLuminance", "ST2085", "ICtCp"];
pub const DERIVED_PRIMS: [&str; 10] = ["BT709", "BT470M", "BT470BG", "ST170M", "ST240M", "Film", "BT2020", "P3DCI", "P3Display", "Tech3213"];

pub fn c01_c08_c16(prop: &str, seed: u64, budget: usize) -> Report {
    let mut all: Vec<(&'static str, bool, u32, u32, Option<&'static str>)> = cfgs().into_iter().map(|(m, f, b, t)| (m, f, b, t, None)).collect();
    // C16 speaks of EVERY matrix: add the five whose coefficients come from the primaries, under each primaries set they accept
    if prop == "C16" { for m in DERIVED5 { for p in DERIVED_PRIMS { for full in [false, true] { for bd in [8u32, 10, 12, 16] { all.push((m, full, bd, 2, Some(p))); } } } } }
    let parts: Vec<Report> = all.par_iter().enumerate().map(|(ci, &(m, full, bd, ts, fixed_p))| {
        let mut rep = Report::new();
        let mut r = Rng::new(seed ^ (ci as u64 * 7919));
        // the property quantifies over the matrix, range and depth only: primaries/transfer tags are arbitrary
        let mut pn = CPS[r.below(14) as usize]; let tn = TCS[r.below(19) as usize];
        if let Some(p) = fixed_p { pn = *CPS.iter().find(|x| x.0 == p).unwrap(); }
        let cfg = cfg_of(bd as u8, 0, 0, full, mc_of(m).unwrap(), tn.1, pn.1);
        let max = (1u32 << bd) - 1;
        let codes: Vec<[u32; 3]> = if prop == "C16" { let mid = 1u32 << (bd - 1); (0..=max).map(|y| [y, mid, mid]).collect() }
            else if bd == 8 && budget >= 1 << 24 { (0..(1u32 << 24)).map(|i| [i & 255, (i >> 8) & 255, i >> 16]).collect() }
            else { sample_codes(&mut r, bd, budget) };
        for (chi, chunk) in codes.chunks(1 << 16).enumerate() {
            // every other chunk is laid out as a multi-row frame with per-plane paddings (the properties are per pixel, so the
            // layout must not matter)
            // (0: one row; 1..4: the multi-row layouts of `yuv444_mode`)
            let rows: u8 = ((chi + ci) % 5) as u8;
            // a single column cannot hold a whole chunk in reasonable time for the generic code path: it only gets a prefix
            let chunk: &[[u32; 3]] = if rows == 3 { &chunk[..chunk.len().min(4096)] } else { chunk };
            let mut rgb: Vec<[f32; 3]> = with_yuv(ts, rows, chunk, cfg, |y| Rgb::try_from(y).unwrap().into_data(), |y| Rgb::try_from(y).unwrap().into_data());
            let lay = |i: usize| if rows > 0 { format!(" L{} {}", rows, i) } else { String::new() };
            let (rw, rh) = if rows > 0 { (lay_width(rows), rgb.len() / lay_width(rows)) } else { (chunk.len(), 1) };
            let rgb_full = rgb.clone(); rgb.truncate(chunk.len());
            rep.evaluated += chunk.len() as u64;
            if prop == "C01" {
                for (pi_, (c, o)) in chunk.iter().zip(rgb.iter()).enumerate() {
                    let e = ref_decode(m, norm(c[0] as f64, bd, full, false), norm(c[1] as f64, bd, full, true), norm(c[2] as f64, bd, full, true));
                    for k in 0..3 { let d = (o[k] as f64 - e[k]).abs(); rep.note("decode abs err", d, 3e-6);
                        if !(d <= 3e-6) { rep.fail("decoded component differs from H.273", format!("dec {} {} {} {} {} {} {} {}{}", ts, m, pn.0, full as u8, bd, c[0], c[1], c[2], lay(pi_)), format!("{:?}", o), format!("{:?}", e)); } }
                }
            } else if prop == "C08" {
                let rgbimg = Rgb::new(rgb_full, rw, rh, TransferCharacteristic::BT1886, pn.1).unwrap();
                let back: Vec<[u32; 3]> = if ts == 1 { codes_of_rows(&Yuv::<u8>::try_from((&rgbimg, cfg)).unwrap(), chunk.len()) } else { codes_of_rows(&Yuv::<u16>::try_from((&rgbimg, cfg)).unwrap(), chunk.len()) };
                let k = 1u32 << (bd - 8);
                for (pi_, (c, b)) in chunk.iter().zip(back.iter()).enumerate() {
                    let exp = if full { *c } else { [c[0].clamp(16 * k, 235 * k), c[1].clamp(16 * k, 240 * k), c[2].clamp(16 * k, 240 * k)] };
                    let okc = |i: usize| b[i] == exp[i] || (full && i > 0 && c[i] == 0 && b[i] == 1);
                    if !(okc(0) && okc(1) && okc(2)) { rep.fail("YUV->RGB->YUV round trip is not lossless", format!("rt {} {} {} {} {} {} {} {}{}", ts, m, pn.0, full as u8, bd, c[0], c[1], c[2], lay(pi_)), format!("{:?}", b), format!("{:?}", exp)); }
                }
            } else {
                let k = 1u32 << (bd - 8);
                for (pi_, (c, o)) in chunk.iter().zip(rgb.iter()).enumerate() {
                    let sp = (o[0].max(o[1]).max(o[2]) - o[0].min(o[1]).min(o[2])) as f64; rep.note("grey spread", sp, 5e-7);
                    if !(sp <= 5e-7) { rep.fail("neutral chroma does not decode to R=G=B", format!("dec {} {} {} {} {} {} {} {}{}", ts, m, pn.0, full as u8, bd, c[0], c[1], c[2], lay(pi_)), format!("{:?}", o), "spread<=5e-7".into()); }
                    let black = if full { 0 } else { 16 * k }; let white = if full { max } else { 235 * k };
                    if c[0] == black && !(o[0] == 0.0 && o[1] == 0.0 && o[2] == 0.0) { rep.fail("nominal black is not exactly 0", format!("dec {} {} {} {} {} {} {} {}{}", ts, m, pn.0, full as u8, bd, c[0], c[1], c[2], lay(pi_)), format!("{:?}", o), "0".into()); }
                    if c[0] == white { for v in o { let d = (*v as f64 - 1.0).abs(); rep.note("white err", d, 1e-6); if !(d <= 1e-6) { rep.fail("nominal white is not 1 within 1e-6", format!("dec {} {} {} {} {} {} {} {}{}", ts, m, pn.0, full as u8, bd, c[0], c[1], c[2], lay(pi_)), format!("{:?}", o), "1".into()); } } }
                }
            }
        }
        rep
    }).collect();
    let mut rep = Report::new(); for p in parts { rep.merge(p); } rep
}

pub fn c02(seed: u64, budget: usize) -> Report {
    let parts: Vec<Report> = cfgs().par_iter().enumerate().map(|(ci, &(m, full, bd, ts))| {
        let mut rep = Report::new();
        let mut r = Rng::new(seed ^ (ci as u64 * 104729));
        let cfg = cfg_of(bd as u8, 0, 0, full, mc_of(m).unwrap(), TransferCharacteristic::BT1886, ColorPrimaries::BT709);
        let mut px: Vec<[f32; 3]> = Vec::with_capacity(budget);
        let cs = [-0.5f32, 0.0, 0.5, 1.0, 1.5];
        for a in cs { for b in cs { for c in cs { px.push([a, b, c]); } } }
        while px.len() < budget {
            match r.below(4) {
                0 => px.push([r.unit(), r.unit(), r.unit()]),
                1 => px.push([r.range(-0.5, 1.5), r.range(-0.5, 1.5), r.range(-0.5, 1.5)]),
                2 => { let max = ((1u64 << bd) - 1) as f64; let k = (1u64 << (bd - 8)) as f64; let c = r.below(1u64 << bd) as f64 + 0.5;
                    let v = if full { c / max } else { (c - 16.0 * k) / (219.0 * k) }; let v = f32::from_bits(((v as f32).to_bits() as i64 + r.below(5) as i64 - 2).max(0) as u32);
                    if v >= -0.5 && v <= 1.5 { px.push([v, v, v]); } }
                _ => { let v = r.range(-0.5, 1.5); px.push([v, v, r.range(-0.5, 1.5)]); }
            }
        }
        // image shape: one row, one column (planes one sample wide, many rows), 97 wide (stride != width), 2 wide
        let n0 = px.len();
        // ... and 64 / 320 wide (the width fills the plane stride: flat-buffer fast paths)
        let (w, h) = match (ci + seed as usize) % 6 { 1 => (1, n0.min(65536)), 2 if n0 >= 97 => (97, n0 / 97), 3 if n0 >= 2 => (2, n0 / 2), 4 if n0 >= 64 => (64, n0 / 64), 5 if n0 >= 320 => (320, n0 / 320), _ => (n0, 1) };
        let n = w * h; px.truncate(n);
        let rgb = Rgb::new(px.clone(), w, h, TransferCharacteristic::BT1886, ColorPrimaries::BT709).unwrap();
        let (codes, okcfg) = if ts == 1 { let y = Yuv::<u8>::try_from((&rgb, cfg)).unwrap(); (codes_of_rows(&y, n), y.config() == cfg && y.width() == w && y.height() == h) }
            else { let y = Yuv::<u16>::try_from((&rgb, cfg)).unwrap(); (codes_of_rows(&y, n), y.config() == cfg && y.width() == w && y.height() == h) };
        if !okcfg { rep.fail("output config/dimensions differ from the request", format!("{:?}", cfg), "".into(), "".into()); }
        let tol = 0.5 + 1e-6 * (1u64 << bd) as f64;
        rep.evaluated += n as u64;
        for (pi, (p, c)) in px.iter().zip(codes.iter()).enumerate() {
            let e = ref_encode(m, [p[0] as f64, p[1] as f64, p[2] as f64]);
            for k in 0..3 { let ideal = quant(e[k], bd, full, k > 0); let d = (c[k] as f64 - ideal).abs(); rep.note("excess over 0.5 / (1e-6*2^n)", (d - 0.5) / (1e-6 * (1u64 << bd) as f64), 1.0);
                if !(d <= tol) { rep.fail("code is not nearest to the H.273 quantisation", format!("enc {} {} BT709 {} {} {} {} {}{}", ts, m, full as u8, bd, hx(p[0]), hx(p[1]), hx(p[2]), if h > 1 { format!(" S {} {} {}", w, h, pi) } else { String::new() }), format!("{:?}", c), format!("plane {} ideal {}", k, ideal)); } }
        }
        rep
    }).collect();
    let mut rep = Report::new(); for p in parts { rep.merge(p); } rep
}
