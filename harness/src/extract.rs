//! Translator: walks /repo's sources with `syn` and emits
//!  * `Generated/Consts.lean`: every numeric literal of every fn/const item as a bit pattern
//!    (`<item>_f<i>` for floats, `<item>_i<j>` for integers), which is where the Lean model takes
//!    all of its numbers from;
//!  * a JSON table of shape fingerprints (operator / call / pattern sequence of every item with the
//!    literals masked), used to tell "a constant changed" from "the structure changed".
use std::collections::BTreeMap;
use std::fmt::Write;
use syn::visit::{self, Visit};

#[derive(Default)]
struct Item {
    floats: Vec<(String, u64, bool)>, // text, bits, is_f64
    ints: Vec<(String, u128)>,
    shape: String,
}

#[derive(Default)]
struct V {
    stack: Vec<String>,
    items: BTreeMap<String, Item>,
    order: Vec<String>,
    seen: BTreeMap<String, usize>,
    impl_ty: Vec<String>,
}

impl V {
    fn enter(&mut self, name: &str) {
        let mut full = if let Some(p) = self.stack.last() {
            format!("{}_{}", p, name)
        } else if let Some(t) = self.impl_ty.last() {
            format!("{}_{}", t, name)
        } else {
            name.to_string()
        };
        let n = self.seen.entry(full.clone()).or_insert(0);
        *n += 1;
        if *n > 1 {
            full = format!("{}_{}", full, n);
        }
        self.items.insert(full.clone(), Item::default());
        self.order.push(full.clone());
        self.stack.push(full);
    }
    fn leave(&mut self) {
        self.stack.pop();
    }
    fn cur(&mut self) -> Option<&mut Item> {
        let k = self.stack.last()?.clone();
        self.items.get_mut(&k)
    }
    fn sh(&mut self, s: &str) {
        if let Some(c) = self.cur() {
            c.shape.push_str(s);
        }
    }
}

fn ty_name(t: &syn::Type) -> String {
    match t {
        syn::Type::Path(p) => p.path.segments.last().map(|s| s.ident.to_string()).unwrap_or_default(),
        syn::Type::Reference(r) => ty_name(&r.elem),
        _ => "T".into(),
    }
}

impl<'ast> Visit<'ast> for V {
    fn visit_item_mod(&mut self, m: &'ast syn::ItemMod) {
        // skip #[cfg(test)] modules
        if m.attrs.iter().any(|a| a.path().is_ident("cfg")) {
            return;
        }
        visit::visit_item_mod(self, m);
    }
    fn visit_item_impl(&mut self, i: &'ast syn::ItemImpl) {
        self.impl_ty.push(ty_name(&i.self_ty));
        visit::visit_item_impl(self, i);
        self.impl_ty.pop();
    }
    fn visit_item_macro(&mut self, m: &'ast syn::ItemMacro) {
        // macro_rules! bodies and invocations: record the token text as shape of a pseudo item
        let name = m.ident.as_ref().map(|i| i.to_string()).unwrap_or_else(|| {
            m.mac.path.segments.last().map(|s| s.ident.to_string()).unwrap_or_default()
        });
        self.enter(&format!("macro_{}", name));
        let txt: String = m.mac.tokens.to_string().split_whitespace().collect::<Vec<_>>().join(" ");
        self.sh(&txt);
        self.leave();
    }
    fn visit_item_fn(&mut self, f: &'ast syn::ItemFn) {
        self.enter(&f.sig.ident.to_string());
        let ar = f.sig.inputs.len();
        self.sh(&format!("fn/{}:", ar));
        visit::visit_item_fn(self, f);
        self.leave();
    }
    fn visit_impl_item_fn(&mut self, f: &'ast syn::ImplItemFn) {
        self.enter(&f.sig.ident.to_string());
        let ar = f.sig.inputs.len();
        self.sh(&format!("fn/{}:", ar));
        visit::visit_impl_item_fn(self, f);
        self.leave();
    }
    fn visit_item_const(&mut self, c: &'ast syn::ItemConst) {
        self.enter(&c.ident.to_string());
        self.sh(&format!("const:{}:", ty_name(&c.ty)));
        visit::visit_item_const(self, c);
        self.leave();
    }
    fn visit_expr_lit(&mut self, l: &'ast syn::ExprLit) {
        let Some(cur) = self.cur() else { return };
        match &l.lit {
            syn::Lit::Float(f) => {
                let txt = f.base10_digits().to_string();
                let is64 = f.suffix() == "f64";
                let bits = if is64 { txt.parse::<f64>().unwrap().to_bits() } else { txt.parse::<f32>().unwrap().to_bits() as u64 };
                cur.floats.push((format!("{}{}", txt, f.suffix()), bits, is64));
                cur.shape.push('F');
            }
            syn::Lit::Int(i) => {
                let suf = i.suffix();
                if suf == "f32" || suf == "f64" {
                    let is64 = suf == "f64";
                    let txt = i.base10_digits().to_string();
                    let bits = if is64 { txt.parse::<f64>().unwrap().to_bits() } else { txt.parse::<f32>().unwrap().to_bits() as u64 };
                    cur.floats.push((format!("{}{}", txt, suf), bits, is64));
                    cur.shape.push('F');
                } else {
                    let v: u128 = i.base10_digits().parse().unwrap();
                    cur.ints.push((format!("{}{}", i.base10_digits(), suf), v));
                    cur.shape.push('I');
                }
            }
            syn::Lit::Bool(b) => cur.shape.push_str(if b.value { "T" } else { "f" }),
            _ => {}
        }
    }
    fn visit_pat(&mut self, p: &'ast syn::Pat) {
        match p {
            syn::Pat::Path(pp) => {
                let id = pp.path.segments.last().unwrap().ident.to_string();
                self.sh(&format!("|{}", id));
            }
            syn::Pat::Ident(pi) => {
                // enum variants in patterns of `use Enum::*` style and bindings
                let id = pi.ident.to_string();
                if id.chars().next().map_or(false, |c| c.is_uppercase()) {
                    self.sh(&format!("|{}", id));
                }
            }
            syn::Pat::Wild(_) => self.sh("|_"),
            _ => {}
        }
        visit::visit_pat(self, p);
    }
    fn visit_arm(&mut self, a: &'ast syn::Arm) {
        self.sh("[");
        visit::visit_arm(self, a);
        self.sh("]");
    }
    fn visit_expr_binary(&mut self, b: &'ast syn::ExprBinary) {
        use syn::BinOp::*;
        self.sh("(");
        self.visit_expr(&b.left);
        let op = match b.op {
            Add(_) => "+", Sub(_) => "-", Mul(_) => "*", Div(_) => "/", Rem(_) => "%", Lt(_) => "<", Le(_) => "<=",
            Gt(_) => ">", Ge(_) => ">=", Eq(_) => "==", Ne(_) => "!=", And(_) => "&&", Or(_) => "||", Shl(_) => "<<",
            Shr(_) => ">>", BitAnd(_) => "&", BitOr(_) => "|", BitXor(_) => "^", AddAssign(_) => "+=", SubAssign(_) => "-=",
            MulAssign(_) => "*=", DivAssign(_) => "/=", BitAndAssign(_) => "&=", BitOrAssign(_) => "|=", _ => "?",
        };
        self.sh(op);
        self.visit_expr(&b.right);
        self.sh(")");
    }
    fn visit_expr_method_call(&mut self, m: &'ast syn::ExprMethodCall) {
        self.visit_expr(&m.receiver);
        self.sh(&format!(".{}(", m.method));
        for a in &m.args {
            self.visit_expr(a);
            self.sh(",");
        }
        self.sh(")");
    }
    fn visit_expr_call(&mut self, c: &'ast syn::ExprCall) {
        if let syn::Expr::Path(p) = &*c.func {
            let segs: Vec<String> = p.path.segments.iter().map(|s| s.ident.to_string()).collect();
            self.sh(&format!("@{}(", segs.join("::")));
        } else {
            self.sh("@?(");
            self.visit_expr(&c.func);
        }
        for a in &c.args {
            self.visit_expr(a);
            self.sh(",");
        }
        self.sh(")");
    }
    fn visit_expr_if(&mut self, i: &'ast syn::ExprIf) {
        self.sh("if{");
        visit::visit_expr_if(self, i);
        self.sh("}");
    }
    fn visit_expr_match(&mut self, m: &'ast syn::ExprMatch) {
        self.sh("match{");
        visit::visit_expr_match(self, m);
        self.sh("}");
    }
    fn visit_expr_for_loop(&mut self, f: &'ast syn::ExprForLoop) {
        self.sh("for{");
        visit::visit_expr_for_loop(self, f);
        self.sh("}");
    }
    fn visit_expr_return(&mut self, r: &'ast syn::ExprReturn) {
        self.sh("ret ");
        visit::visit_expr_return(self, r);
    }
    fn visit_expr_try(&mut self, t: &'ast syn::ExprTry) {
        visit::visit_expr_try(self, t);
        self.sh("?");
    }
    fn visit_expr_index(&mut self, t: &'ast syn::ExprIndex) {
        self.visit_expr(&t.expr);
        self.sh("[");
        self.visit_expr(&t.index);
        self.sh("]");
    }
    fn visit_expr_cast(&mut self, c: &'ast syn::ExprCast) {
        visit::visit_expr_cast(self, c);
        self.sh(&format!(" as {}", ty_name(&c.ty)));
    }
    fn visit_expr_field(&mut self, f: &'ast syn::ExprField) {
        visit::visit_expr_field(self, f);
        match &f.member {
            syn::Member::Named(i) => self.sh(&format!(".{}", i)),
            syn::Member::Unnamed(i) => self.sh(&format!(".{}", i.index)),
        }
    }
    fn visit_expr_path(&mut self, p: &'ast syn::ExprPath) {
        let segs: Vec<String> = p.path.segments.iter().map(|s| s.ident.to_string()).collect();
        self.sh(&format!("#{}", segs.join("::")));
    }
    fn visit_expr_unary(&mut self, u: &'ast syn::ExprUnary) {
        match u.op {
            syn::UnOp::Neg(_) => self.sh("~"),
            syn::UnOp::Not(_) => self.sh("!"),
            syn::UnOp::Deref(_) => self.sh("*"),
            _ => {}
        }
        visit::visit_expr_unary(self, u);
    }
    fn visit_expr_macro(&mut self, m: &'ast syn::ExprMacro) {
        let name = m.mac.path.segments.last().map(|s| s.ident.to_string()).unwrap_or_default();
        if name.starts_with("warn") || name == "log" {
            return; // logging is not modelled
        }
        let txt: String = m.mac.tokens.to_string().split_whitespace().collect::<Vec<_>>().join(" ");
        self.sh(&format!("{}!({})", name, txt));
    }
    fn visit_stmt_macro(&mut self, m: &'ast syn::StmtMacro) {
        let name = m.mac.path.segments.last().map(|s| s.ident.to_string()).unwrap_or_default();
        let full: Vec<String> = m.mac.path.segments.iter().map(|s| s.ident.to_string()).collect();
        if full.first().map_or(false, |s| s == "log") {
            return;
        }
        let txt: String = m.mac.tokens.to_string().split_whitespace().collect::<Vec<_>>().join(" ");
        self.sh(&format!("{}!({})", name, txt));
    }
    fn visit_local(&mut self, l: &'ast syn::Local) {
        self.sh("let ");
        visit::visit_local(self, l);
        self.sh(";");
    }
}

pub fn fnv(s: &str) -> u64 {
    let mut h: u64 = 0xcbf29ce484222325;
    for b in s.bytes() {
        h ^= b as u64;
        h = h.wrapping_mul(0x100000001b3);
    }
    h
}

pub fn run(repo: &str, out_lean: &str, out_json: &str) {
    let files = [
        "yuvxyb-math/src/cbrtf.rs",
        "yuvxyb-math/src/pow_exp.rs",
        "yuvxyb-math/src/mul_add.rs",
        "yuvxyb-math/src/matrix.rs",
        "src/yuv_rgb.rs",
        "src/yuv_rgb/color.rs",
        "src/yuv_rgb/transfer.rs",
        "src/rgb_xyb.rs",
        "src/hsl.rs",
        "src/linear_rgb.rs",
        "src/rgb.rs",
        "src/xyb.rs",
        "src/yuv.rs",
        "src/errors.rs",
    ];
    let mut lean = String::new();
    writeln!(lean, "/-! GENERATED by `harness extract` from the sources under {} on every run. Do not edit.", repo).unwrap();
    writeln!(lean, "Every numeric literal of every fn/const item: `<item>_f<i>` is the bit pattern of the i-th float").unwrap();
    writeln!(lean, "literal (binary32 unless suffixed f64), `<item>_i<j>` the j-th integer literal. -/").unwrap();
    writeln!(lean, "namespace C").unwrap();
    let mut json = String::from("{\n");
    let mut first = true;
    let mut used: BTreeMap<String, usize> = BTreeMap::new();
    for f in files {
        let path = format!("{}/{}", repo, f);
        let src = match std::fs::read_to_string(&path) {
            Ok(s) => s,
            Err(e) => {
                eprintln!("extract: cannot read {}: {}", path, e);
                std::process::exit(2);
            }
        };
        let file = match syn::parse_file(&src) {
            Ok(f) => f,
            Err(e) => {
                eprintln!("extract: cannot parse {}: {}", path, e);
                std::process::exit(2);
            }
        };
        let mut v = V::default();
        v.visit_file(&file);
        writeln!(lean, "-- {}", f).unwrap();
        for name in &v.order {
            let it = &v.items[name];
            // make names unique across files
            let n = used.entry(name.clone()).or_insert(0);
            *n += 1;
            let uname = if *n > 1 { format!("{}_{}", name, n) } else { name.clone() };
            for (i, (txt, bits, is64)) in it.floats.iter().enumerate() {
                if *is64 {
                    writeln!(lean, "def {}_f{} : Nat := 0x{:016x} -- {}", uname, i, bits, txt).unwrap();
                } else {
                    writeln!(lean, "def {}_f{} : Nat := 0x{:08x} -- {}", uname, i, bits, txt).unwrap();
                }
            }
            for (j, (txt, val)) in it.ints.iter().enumerate() {
                writeln!(lean, "def {}_i{} : Nat := {} -- {}", uname, j, val, txt).unwrap();
            }
            if !first {
                json.push_str(",\n");
            }
            first = false;
            let lits: Vec<String> = it.floats.iter().map(|(_, b, _)| format!("\"{:x}\"", b)).chain(it.ints.iter().map(|(_, v)| format!("\"{}\"", v))).collect();
            write!(
                json,
                "  \"{}\": {{\"file\": \"{}\", \"shape\": \"{:016x}\", \"nfloat\": {}, \"nint\": {}, \"lits\": [{}]}}",
                uname, f, fnv(&it.shape), it.floats.len(), it.ints.len(), lits.join(",")
            )
            .unwrap();
            if std::env::var("EXTRACT_DEBUG").is_ok() {
                eprintln!("{} :: {}", uname, it.shape);
            }
        }
    }
    writeln!(lean, "end C").unwrap();
    json.push_str("\n}\n");
    std::fs::write(out_lean, lean).unwrap();
    std::fs::write(out_json, json).unwrap();
}
