//! Executes protocol request lines on the real crates (public API only) and prints the response in the
//! same format as the Lean driver (lean/Driver.lean).
use std::panic::{catch_unwind, AssertUnwindSafe};
use yuvxyb::*;

pub const MCS: [(&str, MatrixCoefficients); 15] = [
    ("Identity", MatrixCoefficients::Identity),
    ("BT709", MatrixCoefficients::BT709),
    ("Unspecified", MatrixCoefficients::Unspecified),
    ("Reserved", MatrixCoefficients::Reserved),
    ("BT470M", MatrixCoefficients::BT470M),
    ("BT470BG", MatrixCoefficients::BT470BG),
    ("ST170M", MatrixCoefficients::ST170M),
    ("ST240M", MatrixCoefficients::ST240M),
    ("YCgCo", MatrixCoefficients::YCgCo),
    ("BT2020NonConstantLuminance", MatrixCoefficients::BT2020NonConstantLuminance),
    ("BT2020ConstantLuminance", MatrixCoefficients::BT2020ConstantLuminance),
    ("ST2085", MatrixCoefficients::ST2085),
    ("ChromaticityDerivedNonConstantLuminance", MatrixCoefficients::ChromaticityDerivedNonConstantLuminance),
    ("ChromaticityDerivedConstantLuminance", MatrixCoefficients::ChromaticityDerivedConstantLuminance),
    ("ICtCp", MatrixCoefficients::ICtCp),
];
pub const CPS: [(&str, ColorPrimaries); 14] = [
    ("Reserved0", ColorPrimaries::Reserved0),
    ("BT709", ColorPrimaries::BT709),
    ("Unspecified", ColorPrimaries::Unspecified),
    ("Reserved", ColorPrimaries::Reserved),
    ("BT470M", ColorPrimaries::BT470M),
    ("BT470BG", ColorPrimaries::BT470BG),
    ("ST170M", ColorPrimaries::ST170M),
    ("ST240M", ColorPrimaries::ST240M),
    ("Film", ColorPrimaries::Film),
    ("BT2020", ColorPrimaries::BT2020),
    ("ST428", ColorPrimaries::ST428),
    ("P3DCI", ColorPrimaries::P3DCI),
    ("P3Display", ColorPrimaries::P3Display),
    ("Tech3213", ColorPrimaries::Tech3213),
];
pub const TCS: [(&str, TransferCharacteristic); 19] = [
    ("Reserved0", TransferCharacteristic::Reserved0),
    ("BT1886", TransferCharacteristic::BT1886),
    ("Unspecified", TransferCharacteristic::Unspecified),
    ("Reserved", TransferCharacteristic::Reserved),
    ("BT470M", TransferCharacteristic::BT470M),
    ("BT470BG", TransferCharacteristic::BT470BG),
    ("ST170M", TransferCharacteristic::ST170M),
    ("ST240M", TransferCharacteristic::ST240M),
    ("Linear", TransferCharacteristic::Linear),
    ("Logarithmic100", TransferCharacteristic::Logarithmic100),
    ("Logarithmic316", TransferCharacteristic::Logarithmic316),
    ("XVYCC", TransferCharacteristic::XVYCC),
    ("BT1361E", TransferCharacteristic::BT1361E),
    ("SRGB", TransferCharacteristic::SRGB),
    ("BT2020Ten", TransferCharacteristic::BT2020Ten),
    ("BT2020Twelve", TransferCharacteristic::BT2020Twelve),
    ("PerceptualQuantizer", TransferCharacteristic::PerceptualQuantizer),
    ("ST428", TransferCharacteristic::ST428),
    ("HybridLogGamma", TransferCharacteristic::HybridLogGamma),
];
pub fn mc_of(s: &str) -> Option<MatrixCoefficients> { MCS.iter().find(|x| x.0 == s).map(|x| x.1) }
pub fn cp_of(s: &str) -> Option<ColorPrimaries> { CPS.iter().find(|x| x.0 == s).map(|x| x.1) }
pub fn tc_of(s: &str) -> Option<TransferCharacteristic> { TCS.iter().find(|x| x.0 == s).map(|x| x.1) }
pub fn mc_name(m: MatrixCoefficients) -> &'static str { MCS.iter().find(|x| x.1 == m).unwrap().0 }
pub fn cp_name(m: ColorPrimaries) -> &'static str { CPS.iter().find(|x| x.1 == m).unwrap().0 }
pub fn tc_name(m: TransferCharacteristic) -> &'static str { TCS.iter().find(|x| x.1 == m).unwrap().0 }
pub fn cerr_name(e: ConversionError) -> &'static str {
    match e {
        ConversionError::UnsupportedMatrixCoefficients => "UnsupportedMatrixCoefficients",
        ConversionError::UnspecifiedMatrixCoefficients => "UnspecifiedMatrixCoefficients",
        ConversionError::UnsupportedColorPrimaries => "UnsupportedColorPrimaries",
        ConversionError::UnspecifiedColorPrimaries => "UnspecifiedColorPrimaries",
        ConversionError::UnsupportedTransferCharacteristic => "UnsupportedTransferCharacteristic",
        ConversionError::UnspecifiedTransferCharacteristic => "UnspecifiedTransferCharacteristic",
    }
}
pub fn yerr_name(e: YuvError) -> &'static str {
    match e {
        YuvError::SubsamplingMismatch => "SubsamplingMismatch",
        YuvError::InvalidLumaWidth => "InvalidLumaWidth",
        YuvError::InvalidLumaHeight => "InvalidLumaHeight",
        YuvError::InvalidData => "InvalidData",
    }
}

pub fn mix(x: u64) -> u64 {
    let mut z = x.wrapping_add(0x9E3779B97F4A7C15);
    z = (z ^ (z >> 30)).wrapping_mul(0xBF58476D1CE4E5B9);
    z = (z ^ (z >> 27)).wrapping_mul(0x94D049BB133111EB);
    z ^ (z >> 31)
}
pub fn fnv_step(h: u64, x: u64) -> u64 { (h ^ x).wrapping_mul(0x100000001b3) }
pub const FNV_INIT: u64 = 0xcbf29ce484222325;

pub const SPECIALS: [u32; 20] = [
    0x00000000, 0x80000000, 0x3f800000, 0xbf800000, 0x7f800000, 0xff800000, 0x7fc00000, 0x7f61b1e6, 0xff61b1e6, 0x00000001,
    0x80000001, 0x007fffff, 0x3f000000, 0x7f7fffff, 0xff7fffff, 0x3f7fffff, 0x3f800001, 0xbf000000, 0x34000000, 0x40000000,
];

pub fn gen_float(kind: u64, seed: u64, idx: u64) -> f32 {
    let r = mix(seed.wrapping_mul(0x100000001).wrapping_add(idx));
    match kind {
        0 => ((r >> 40) as f32) / 16777216.0,
        1 => f32::from_bits((r >> 32) as u32),
        2 => f32::from_bits(SPECIALS[(r % SPECIALS.len() as u64) as usize]),
        3 => ((r >> 40) as f32) / 8388608.0 - 0.5,
        _ => {
            if r % 4 == 0 {
                f32::from_bits(SPECIALS[((r >> 8) % SPECIALS.len() as u64) as usize])
            } else {
                ((r >> 40) as f32) / 16777216.0
            }
        }
    }
}
pub fn gen_image(kind: u64, seed: u64, n: usize) -> Vec<[f32; 3]> {
    (0..n as u64).map(|i| [gen_float(kind, seed, 3 * i), gen_float(kind, seed, 3 * i + 1), gen_float(kind, seed, 3 * i + 2)]).collect()
}

pub fn canon32(x: f32) -> u32 { if x.is_nan() { 0x7fc00000 } else { x.to_bits() } }
pub fn canon64(x: f64) -> u64 { if x.is_nan() { 0x7ff8000000000000 } else { x.to_bits() } }
pub fn h32(x: f32) -> String { format!("{:08x}", canon32(x)) }
pub fn h64(x: f64) -> String { format!("{:016x}", canon64(x)) }
pub fn px(s: &str) -> Option<f32> { u32::from_str_radix(s, 16).ok().map(f32::from_bits) }
pub fn px64(s: &str) -> Option<f64> { u64::from_str_radix(s, 16).ok().map(f64::from_bits) }
fn v3s(v: [f32; 3]) -> String { format!("{} {} {}", h32(v[0]), h32(v[1]), h32(v[2])) }

pub fn cfg_of(bd: u8, ssx: u8, ssy: u8, full: bool, m: MatrixCoefficients, t: TransferCharacteristic, p: ColorPrimaries) -> YuvConfig {
    YuvConfig { bit_depth: bd, subsampling_x: ssx, subsampling_y: ssy, full_range: full, matrix_coefficients: m, transfer_characteristics: t, color_primaries: p }
}

pub fn frame_1x1<T: Pixel>(y: u16, u: u16, v: u16) -> Frame<T> {
    let mk = |val: u16| {
        let mut p: Plane<T> = Plane::new(1, 1, 0, 0, 0, 0);
        p.data_origin_mut()[0] = T::cast_from(val);
        p
    };
    Frame { planes: [mk(y), mk(u), mk(v)] }
}

fn origin_val<T: Pixel>(p: &Plane<T>) -> u16 { u16::cast_from(p.data_origin()[0]) }

fn plane_of<T: Pixel>(spec: &[&str]) -> Option<Plane<T>> {
    let n: Vec<usize> = spec[1..].iter().map(|s| s.parse().ok()).collect::<Option<Vec<_>>>()?;
    match (spec[0], n.len()) {
        ("n", 6) => Some(Plane::new(n[0], n[1], n[2], n[3], n[4], n[5])),
        ("r", 11) => {
            let mut p: Plane<T> = Plane::new(0, 0, 0, 0, 0, 0);
            p.data = v_frame::plane::PlaneData::new(n[10]);
            p.cfg.stride = n[0];
            p.cfg.alloc_height = n[1];
            p.cfg.width = n[2];
            p.cfg.height = n[3];
            p.cfg.xdec = n[4];
            p.cfg.ydec = n[5];
            p.cfg.xpad = n[6];
            p.cfg.ypad = n[7];
            p.cfg.xorigin = n[8];
            p.cfg.yorigin = n[9];
            Some(p)
        }
        _ => None,
    }
}
fn fill_plane<T: Pixel>(p: &mut Plane<T>, seed: u64, pi: u64, maxv: u64) {
    for (i, s) in p.data.iter_mut().enumerate() {
        *s = T::cast_from((mix(seed.wrapping_mul(0x100000001).wrapping_add(pi * 0x1000000).wrapping_add(i as u64)) % (maxv + 1)) as u16);
    }
}

/// parse `TS BD SSX SSY FULL M T P | plane | plane | plane | fill SEED MAXV (poke P I V)*`
fn parse_frame<T: Pixel>(head: &[&str], segs: &[&str]) -> Option<(Frame<T>, YuvConfig)> {
    if head.len() != 8 || segs.len() != 4 { return None; }
    let cfg = cfg_of(head[1].parse().ok()?, head[2].parse().ok()?, head[3].parse().ok()?, head[4] == "1", mc_of(head[5])?, tc_of(head[6])?, cp_of(head[7])?);
    let mut planes: Vec<Plane<T>> = Vec::new();
    for s in &segs[0..3] {
        let spec: Vec<&str> = s.split(' ').collect();
        planes.push(plane_of::<T>(&spec)?);
    }
    let f: Vec<&str> = segs[3].split(' ').collect();
    if f.len() < 3 || f[0] != "fill" { return None; }
    let seed: u64 = f[1].parse().ok()?;
    let maxv: u64 = f[2].parse().ok()?;
    for (pi, p) in planes.iter_mut().enumerate() { fill_plane(p, seed, pi as u64, maxv); }
    let mut k = 3;
    while k + 3 < f.len() && f[k] == "poke" {
        let pi: usize = f[k + 1].parse().ok()?;
        let i: usize = f[k + 2].parse().ok()?;
        let v: u16 = f[k + 3].parse().ok()?;
        if let Some(s) = planes[pi.min(2)].data.get_mut(i) { *s = T::cast_from(v); }
        k += 4;
    }
    let v = planes.pop()?; let u = planes.pop()?; let y = planes.pop()?;
    Some((Frame { planes: [y, u, v] }, cfg))
}

fn hash_px(d: &[[f32; 3]]) -> u64 {
    let mut h = FNV_INIT;
    for p in d { for c in p { h = fnv_step(h, canon32(*c) as u64); } }
    h
}

fn cfg_str<T: Pixel>(p: &Plane<T>) -> String {
    let c = &p.cfg;
    format!("{} {} {} {} {} {} {} {} {} {} {}", c.stride, c.alloc_height, c.width, c.height, c.xdec, c.ydec, c.xpad, c.ypad, c.xorigin, c.yorigin, p.data.len())
}

fn yuv_summary<T: Pixel>(y: &Yuv<T>) -> String {
    let mut h = FNV_INIT;
    for p in y.data() { for s in p.data.iter() { h = fnv_step(h, u16::cast_from(*s) as u64); } }
    let c = y.config();
    format!("ok {} {} {} | {} | {} | {} | {:016x}", mc_name(c.matrix_coefficients), tc_name(c.transfer_characteristics), cp_name(c.color_primaries),
        cfg_str(&y.data()[0]), cfg_str(&y.data()[1]), cfg_str(&y.data()[2]), h)
}

fn err_c(e: ConversionError) -> String { format!("err {}", cerr_name(e)) }

fn typed<T: Pixel>(toks: &[&str], segs: &[&str]) -> Option<String> {
    Some(match toks[0] {
        // optional suffix `L<mode> <index>`: the sample sits at <index> of a multi-row frame (oracle::yuv444_rows; mode 1 = a
        // different padding per plane, mode 2 = one shared padded layout), every other sample being mid-grey
        "dec" | "rt" if toks.len() == 11 && ["L1", "L2", "L3", "L4"].contains(&toks[9]) => {
            let bd: u8 = toks[5].parse().ok()?; let idx: usize = toks[10].parse().ok()?; if idx > 1 << 20 { return None; }
            let cfg = cfg_of(bd, 0, 0, toks[4] == "1", mc_of(toks[2])?, TransferCharacteristic::BT1886, cp_of(toks[3])?);
            let mode: u8 = toks[9][1..].parse().ok()?; let mid = 1u32 << (bd - 1); let mut codes = vec![[mid, mid, mid]; idx + crate::oracle::lay_width(mode) + 1];
            codes[idx] = [toks[6].parse().ok()?, toks[7].parse().ok()?, toks[8].parse().ok()?];
            let yuv: Yuv<T> = crate::oracle::yuv444_mode(&codes, cfg, mode);
            match Rgb::try_from(&yuv) {
                Ok(r) if toks[0] == "dec" => format!("ok {}", v3s(r.data()[idx])),
                Ok(r) => match Yuv::<T>::try_from((&r, cfg)) { Ok(y) => { let c = crate::oracle::codes_of_rows(&y, idx + 1)[idx]; format!("ok {} {} {}", c[0], c[1], c[2]) } Err(e) => err_c(e) },
                Err(e) => err_c(e),
            }
        }
        "dec" => {
            let cfg = cfg_of(toks[5].parse().ok()?, 0, 0, toks[4] == "1", mc_of(toks[2])?, TransferCharacteristic::BT1886, cp_of(toks[3])?);
            let yuv = Yuv::<T>::new(frame_1x1(toks[6].parse().ok()?, toks[7].parse().ok()?, toks[8].parse().ok()?), cfg).ok()?;
            match Rgb::try_from(&yuv) { Ok(r) => format!("ok {}", v3s(r.data()[0])), Err(e) => err_c(e) }
        }
        "enc" => {
            let cfg = cfg_of(toks[5].parse().ok()?, 0, 0, toks[4] == "1", mc_of(toks[2])?, TransferCharacteristic::BT1886, cp_of(toks[3])?);
            // optional suffix `S <w> <h> <idx>`: the same pixel everywhere in a w x h image, read back at index idx
            let (w, h, idx): (usize, usize, usize) = if toks.len() == 13 && toks[9] == "S" { (toks[10].parse().ok()?, toks[11].parse().ok()?, toks[12].parse().ok()?) } else { (1, 1, 0) };
            if w == 0 || h == 0 || idx >= w * h || w * h > (1 << 24) { return None; }
            let rgb = Rgb::new(vec![[px(toks[6])?, px(toks[7])?, px(toks[8])?]; w * h], w, h, TransferCharacteristic::BT1886, cp_of(toks[3])?).ok()?;
            match Yuv::<T>::try_from((&rgb, cfg)) {
                Ok(y) => { let g = |pi: usize| { let p = &y.data()[pi]; u16::cast_from(p.data_origin()[(idx / w) * p.cfg.stride + idx % w]) };
                    format!("ok {} {} {}", g(0), g(1), g(2)) }
                Err(e) => err_c(e),
            }
        }
        "rt" => {
            let cfg = cfg_of(toks[5].parse().ok()?, 0, 0, toks[4] == "1", mc_of(toks[2])?, TransferCharacteristic::BT1886, cp_of(toks[3])?);
            let yuv = Yuv::<T>::new(frame_1x1(toks[6].parse().ok()?, toks[7].parse().ok()?, toks[8].parse().ok()?), cfg).ok()?;
            match Rgb::try_from(&yuv) {
                Ok(r) => match Yuv::<T>::try_from((&r, cfg)) {
                    Ok(y) => format!("ok {} {} {}", origin_val(&y.data()[0]), origin_val(&y.data()[1]), origin_val(&y.data()[2])),
                    Err(e) => err_c(e),
                },
                Err(e) => err_c(e),
            }
        }
        "y2x2y" => {
            let cfg = cfg_of(toks[6].parse().ok()?, 0, 0, toks[5] == "1", mc_of(toks[2])?, tc_of(toks[3])?, cp_of(toks[4])?);
            let yuv = Yuv::<T>::new(frame_1x1(toks[7].parse().ok()?, toks[8].parse().ok()?, toks[9].parse().ok()?), cfg).ok()?;
            match Xyb::try_from(&yuv) {
                Ok(x) => match Yuv::<T>::try_from((x, yuv.config())) {
                    Ok(y) => format!("ok {} {} {}", origin_val(&y.data()[0]), origin_val(&y.data()[1]), origin_val(&y.data()[2])),
                    Err(e) => err_c(e),
                },
                Err(e) => err_c(e),
            }
        }
        "ynew" => {
            let (f, cfg) = parse_frame::<T>(&toks[1..], &segs[1..])?;
            match Yuv::<T>::new(f, cfg) {
                Ok(y) => { let c = y.config(); format!("ok {} {} {}", mc_name(c.matrix_coefficients), tc_name(c.transfer_characteristics), cp_name(c.color_primaries)) }
                Err(e) => format!("err {}", yerr_name(e)),
            }
        }
        "ydec" => {
            let (f, cfg) = parse_frame::<T>(&toks[1..], &segs[1..])?;
            match Yuv::<T>::new(f, cfg) {
                Ok(y) => match Rgb::try_from(&y) { Ok(r) => format!("ok {} {} {:016x}", r.width(), r.height(), hash_px(r.data())), Err(e) => err_c(e) },
                Err(e) => format!("newerr {}", yerr_name(e)),
            }
        }
        "yenc" => {
            let p = cp_of(toks[7])?;
            let cfg = cfg_of(toks[2].parse().ok()?, toks[3].parse().ok()?, toks[4].parse().ok()?, toks[5] == "1", mc_of(toks[6])?, TransferCharacteristic::BT1886, p);
            let (w, h): (usize, usize) = (toks[8].parse().ok()?, toks[9].parse().ok()?);
            let rgb = Rgb::new(gen_image(toks[11].parse().ok()?, toks[10].parse().ok()?, w * h), w, h, TransferCharacteristic::BT1886, p).ok()?;
            match Yuv::<T>::try_from((&rgb, cfg)) { Ok(y) => yuv_summary(&y), Err(e) => err_c(e) }
        }
        _ => return None,
    })
}

fn meta_tok<A>(r: Result<A, ConversionError>, f: impl Fn(&A) -> String) -> String {
    match r { Ok(a) => format!("ok:{}", f(&a)), Err(e) => format!("err:{}", cerr_name(e)) }
}
fn guarded(f: impl FnOnce() -> String) -> String {
    match catch_unwind(AssertUnwindSafe(f)) {
        Ok(s) => s,
        Err(e) => {
            let msg = e.downcast_ref::<String>().cloned().or_else(|| e.downcast_ref::<&str>().map(|s| s.to_string())).unwrap_or_default();
            if msg.contains("verif-hook") { "ub".to_string() } else { "panic".to_string() }
        }
    }
}

fn meta_op(m: MatrixCoefficients, t: TransferCharacteristic, p: ColorPrimaries, w: usize, h: usize) -> String {
    let cfg = cfg_of(8, 0, 0, false, m, t, p);
    let lab = |c: YuvConfig| format!("{},{},{}", mc_name(c.matrix_coefficients), tc_name(c.transfer_characteristics), cp_name(c.color_primaries));
    let frame: Frame<u8> = Frame { planes: [Plane::new(w, h, 0, 0, 0, 0), Plane::new(w, h, 0, 0, 0, 0), Plane::new(w, h, 0, 0, 0, 0)] };
    let yuv = match Yuv::<u8>::new(frame, cfg) { Ok(y) => y, Err(_) => return "setup-failed".into() };
    let img = vec![[0.5f32; 3]; w * h];
    let rgb = match Rgb::new(img.clone(), w, h, t, p) { Ok(r) => r, Err(_) => return "setup-failed".into() };
    let lin = || LinearRgb::new(img.clone(), w, h).unwrap();
    let xyb = || Xyb::new(img.clone(), w, h).unwrap();
    let a = guarded(|| meta_tok(Rgb::try_from(&yuv), |r| format!("{},{}", tc_name(r.transfer()), cp_name(r.primaries()))));
    let b = guarded(|| meta_tok(Yuv::<u8>::try_from((&rgb, cfg)), |y| lab(y.config())));
    let c = guarded(|| meta_tok(LinearRgb::try_from(rgb.clone()), |_| "-".into()));
    let d = guarded(|| meta_tok(Rgb::try_from((lin(), t, p)), |r| format!("{},{}", tc_name(r.transfer()), cp_name(r.primaries()))));
    let e = guarded(|| meta_tok(LinearRgb::try_from(&yuv), |_| "-".into()));
    let f = guarded(|| meta_tok(Yuv::<u8>::try_from((lin(), cfg)), |y| lab(y.config())));
    let g = guarded(|| meta_tok(Xyb::try_from(&yuv), |_| "-".into()));
    let hh = guarded(|| meta_tok(Yuv::<u8>::try_from((xyb(), cfg)), |y| lab(y.config())));
    format!("{} {},{} {} {} {} {} {} {} {} {}", lab(yuv.config()), tc_name(rgb.transfer()), cp_name(rgb.primaries()), a, b, c, d, e, f, g, hh)
}

type M32 = yuvxyb_math::Matrix<f32>;
type R32 = yuvxyb_math::RowVector<f32>;
type C32 = yuvxyb_math::ColVector<f32>;
type M64 = yuvxyb_math::Matrix<f64>;
type R64 = yuvxyb_math::RowVector<f64>;
type C64 = yuvxyb_math::ColVector<f64>;
fn m32(a: &[f32]) -> M32 { M32::new(R32::new(a[0], a[1], a[2]), R32::new(a[3], a[4], a[5]), R32::new(a[6], a[7], a[8])) }
fn m64(a: &[f64]) -> M64 { M64::new(R64::new(a[0], a[1], a[2]), R64::new(a[3], a[4], a[5]), R64::new(a[6], a[7], a[8])) }
fn ms32(m: M32) -> String { m.values().iter().flatten().map(|x| h32(*x)).collect::<Vec<_>>().join(" ") }
fn ms64(m: M64) -> String { m.values().iter().flatten().map(|x| h64(*x)).collect::<Vec<_>>().join(" ") }

fn mat32(op: &str, a: &[f32]) -> Option<String> {
    Some(match op {
        "inv" => format!("ok {}", ms32(m32(a).invert())),
        "tr" => format!("ok {}", ms32(m32(a).transpose())),
        "mulv" => { let r = m32(a).mul_vec(&C32::new(a[9], a[10], a[11])); format!("ok {}", v3s(r.values())) }
        "mulm" => format!("ok {}", ms32(m32(a).mul_mat(m32(&a[9..])))),
        "idmul" => format!("ok {}", ms32(M32::identity().mul_mat(m32(a)))),
        "mulid" => format!("ok {}", ms32(m32(a).mul_mat(M32::identity()))),
        "cross" => format!("ok {}", v3s(R32::new(a[0], a[1], a[2]).cross(&R32::new(a[3], a[4], a[5])).values())),
        "dot" => format!("ok {}", h32(R32::new(a[0], a[1], a[2]).dot(&R32::new(a[3], a[4], a[5])))),
        "sdiv" => format!("ok {}", v3s(R32::new(a[0], a[1], a[2]).scalar_div(a[3]).values())),
        "cmul" => format!("ok {}", v3s(R32::new(a[0], a[1], a[2]).component_mul(&R32::new(a[3], a[4], a[5])).values())),
        _ => return None,
    })
}
fn v3s64(v: [f64; 3]) -> String { format!("{} {} {}", h64(v[0]), h64(v[1]), h64(v[2])) }
fn mat64(op: &str, a: &[f64]) -> Option<String> {
    Some(match op {
        "inv" => format!("ok {}", ms64(m64(a).invert())),
        "tr" => format!("ok {}", ms64(m64(a).transpose())),
        "mulv" => { let r = m64(a).mul_vec(&C64::new(a[9], a[10], a[11])); format!("ok {}", v3s64(r.values())) }
        "mulm" => format!("ok {}", ms64(m64(a).mul_mat(m64(&a[9..])))),
        "idmul" => format!("ok {}", ms64(M64::identity().mul_mat(m64(a)))),
        "mulid" => format!("ok {}", ms64(m64(a).mul_mat(M64::identity()))),
        "cross" => format!("ok {}", v3s64(R64::new(a[0], a[1], a[2]).cross(&R64::new(a[3], a[4], a[5])).values())),
        "dot" => format!("ok {}", h64(R64::new(a[0], a[1], a[2]).dot(&R64::new(a[3], a[4], a[5])))),
        "sdiv" => format!("ok {}", v3s64(R64::new(a[0], a[1], a[2]).scalar_div(a[3]).values())),
        "cmul" => format!("ok {}", v3s64(R64::new(a[0], a[1], a[2]).component_mul(&R64::new(a[3], a[4], a[5])).values())),
        _ => return None,
    })
}

fn exec_inner(line: &str) -> Option<String> {
    let segs: Vec<&str> = line.trim().split(" | ").collect();
    let toks: Vec<&str> = segs[0].split(' ').collect();
    Some(match toks[0] {
        "powf" if toks.len() == 3 => format!("ok {}", h32(yuvxyb_math::powf(px(toks[1])?, px(toks[2])?))),
        "expf" if toks.len() == 2 => format!("ok {}", h32(yuvxyb_math::expf(px(toks[1])?))),
        "cbrtf" if toks.len() == 2 => format!("ok {}", h32(yuvxyb_math::cbrtf(px(toks[1])?))),
        "tf" if toks.len() == 6 => {
            let t = tc_of(toks[2])?;
            let d = vec![[px(toks[3])?, px(toks[4])?, px(toks[5])?]];
            if toks[1] == "lin" {
                let rgb = Rgb::new(d, 1, 1, t, ColorPrimaries::BT709).ok()?;
                match LinearRgb::try_from(rgb) { Ok(l) => format!("ok {}", v3s(l.data()[0])), Err(e) => err_c(e) }
            } else {
                match Rgb::try_from((LinearRgb::new(d, 1, 1).ok()?, t, ColorPrimaries::BT709)) { Ok(r) => format!("ok {}", v3s(r.data()[0])), Err(e) => err_c(e) }
            }
        }
        "prim" if toks.len() == 6 => {
            let p = cp_of(toks[2])?;
            let d = vec![[px(toks[3])?, px(toks[4])?, px(toks[5])?]];
            if toks[1] == "to709" {
                let rgb = Rgb::new(d, 1, 1, TransferCharacteristic::Linear, p).ok()?;
                match LinearRgb::try_from(rgb) { Ok(l) => format!("ok {}", v3s(l.data()[0])), Err(e) => err_c(e) }
            } else {
                match Rgb::try_from((LinearRgb::new(d, 1, 1).ok()?, TransferCharacteristic::Linear, p)) { Ok(r) => format!("ok {}", v3s(r.data()[0])), Err(e) => err_c(e) }
            }
        }
        "xyb" | "ixyb" | "hsl" | "ihsl" if toks.len() == 4 => {
            let d = vec![[px(toks[1])?, px(toks[2])?, px(toks[3])?]];
            let o = match toks[0] {
                "xyb" => Xyb::from(LinearRgb::new(d, 1, 1).ok()?).data()[0],
                "ixyb" => LinearRgb::from(Xyb::new(d, 1, 1).ok()?).data()[0],
                "hsl" => Hsl::from(LinearRgb::new(d, 1, 1).ok()?).data()[0],
                _ => LinearRgb::from(Hsl::new(d, 1, 1).ok()?).data()[0],
            };
            format!("ok {}", v3s(o))
        }
        "dec" | "enc" | "rt" | "y2x2y" | "ynew" | "ydec" | "yenc" => {
            if toks.len() < 2 { return None; }
            if toks[1] == "1" { typed::<u8>(&toks, &segs)? } else if toks[1] == "2" { typed::<u16>(&toks, &segs)? } else { return None }
        }
        "meta" if toks.len() == 6 => meta_op(mc_of(toks[1])?, tc_of(toks[2])?, cp_of(toks[3])?, toks[4].parse().ok()?, toks[5].parse().ok()?),
        "fnew" if toks.len() == 5 => {
            let len: usize = toks[2].parse().ok()?;
            let (w, h): (usize, usize) = (toks[3].parse().ok()?, toks[4].parse().ok()?);
            let d = vec![[0.0f32; 3]; len];
            let r = match toks[1] {
                "rgb" => Rgb::new(d, w, h, TransferCharacteristic::SRGB, ColorPrimaries::BT709).map(|x| (x.width(), x.height(), x.data().len())),
                "lrgb" => LinearRgb::new(d, w, h).map(|x| (x.width(), x.height(), x.data().len())),
                "xyb" => Xyb::new(d, w, h).map(|x| (x.width(), x.height(), x.data().len())),
                "hsl" => Hsl::new(d, w, h).map(|x| (x.width(), x.height(), x.data().len())),
                _ => return None,
            };
            match r { Ok((w, h, l)) => format!("ok {} {} {}", w, h, l), Err(_) => "err ResolutionMismatch".into() }
        }
        "m32" => { let a: Vec<f32> = toks[2..].iter().map(|s| px(s)).collect::<Option<Vec<_>>>()?; mat32(toks[1], &a)? }
        "m64" => { let a: Vec<f64> = toks[2..].iter().map(|s| px64(s)).collect::<Option<Vec<_>>>()?; mat64(toks[1], &a)? }
        _ => return None,
    })
}

pub fn exec_line(line: &str) -> String {
    guarded(|| exec_inner(line).unwrap_or_else(|| "bad-op".to_string()))
}

pub fn run_stdin() {
    use std::io::{BufRead, Write};
    std::panic::set_hook(Box::new(|_| {}));
    let stdin = std::io::stdin();
    let out = std::io::stdout();
    let mut out = std::io::BufWriter::new(out.lock());
    for line in stdin.lock().lines() {
        let line = line.unwrap();
        if line.is_empty() { continue; }
        writeln!(out, "{}", exec_line(&line)).unwrap();
    }
}
