mod extract;
fn main() {
    let args: Vec<String> = std::env::args().collect();
    match args.get(1).map(|s| s.as_str()) {
        Some("extract") => extract::run(&args[2], &args[3], &args[4]),
        _ => { eprintln!("usage: harness extract <repo> <out.lean> <out.json>"); std::process::exit(2) }
    }
}
