mod exec;
mod extract;
mod gen;
mod oracle;
mod oracle2;
mod oracle3;
fn main() {
    let args: Vec<String> = std::env::args().collect();
    match args.get(1).map(|s| s.as_str()) {
        Some("extract") => extract::run(&args[2], &args[3], &args[4]),
        Some("run") => exec::run_stdin(),
        Some("gen") => {
            std::panic::set_hook(Box::new(|_| {}));
            let seed: u64 = args[3].parse().unwrap();
            let tier: u32 = args[4].parse().unwrap();
            use std::io::Write;
            let out = std::io::stdout();
            let mut out = std::io::BufWriter::new(out.lock());
            for l in gen::gen(&args[2], seed, tier) {
                writeln!(out, "{}", l).unwrap();
            }
        }
        Some("search") => {
            std::panic::set_hook(Box::new(|_| {}));
            let seed: u64 = args[3].parse().unwrap();
            let tier: u32 = args[4].parse().unwrap();
            let r = oracle3::search(&args[2], seed, tier);
            let worst: Vec<String> = r.worst.iter().map(|(k, w, b)| format!("{{\"quantity\":\"{}\",\"worst\":{},\"budget\":{}}}", k, if w.is_finite() { format!("{:e}", w) } else { "null".into() }, b)).collect();
            let fails: Vec<String> = r.fails.iter().map(|f| f.json(&args[2])).collect();
            println!("{{\"evaluated\":{},\"worst\":[{}],\"fails\":[{}]}}", r.evaluated, worst.join(","), fails.join(","));
        }
        _ => {
            eprintln!("usage: harness extract <repo> <out.lean> <out.json> | run | gen <prop> <seed> <tier>");
            std::process::exit(2)
        }
    }
}
