//! Request-line generators, one stream per property. Every choice derives from one xorshift state seeded by
//! VERIF_SEED, so a run replays exactly. `tier` 0 = quick, 1 = thorough.
use crate::exec::{CPS, MCS, SPECIALS, TCS};

pub struct Rng(pub u64);
impl Rng {
    pub fn new(seed: u64) -> Self { Rng(seed.wrapping_mul(0x9E3779B97F4A7C15) ^ 0xD1B54A32D192ED03 | 1) }
    pub fn next(&mut self) -> u64 { let mut s = self.0; s ^= s << 13; s ^= s >> 7; s ^= s << 17; self.0 = s; s.wrapping_mul(0x2545F4914F6CDD1D) }
    pub fn below(&mut self, n: u64) -> u64 { self.next() % n.max(1) }
    pub fn unit(&mut self) -> f32 { ((self.next() >> 40) as f32) / 16777216.0 }
    pub fn range(&mut self, lo: f32, hi: f32) -> f32 { lo + (hi - lo) * self.unit() }
    pub fn pick<'a, T>(&mut self, v: &'a [T]) -> &'a T { &v[self.below(v.len() as u64) as usize] }
}

pub const STD7: [&str; 7] = ["BT709", "BT470M", "BT470BG", "ST170M", "ST240M", "BT2020NonConstantLuminance", "YCgCo"];
pub const TC14: [&str; 14] = ["BT1886", "ST170M", "ST240M", "BT2020Ten", "BT2020Twelve", "BT470M", "BT470BG", "SRGB", "XVYCC", "Logarithmic100",
    "Logarithmic316", "PerceptualQuantizer", "HybridLogGamma", "Linear"];
pub const CP11: [&str; 11] = ["BT709", "BT470M", "BT470BG", "ST170M", "ST240M", "Film", "BT2020", "ST428", "P3DCI", "P3Display", "Tech3213"];
pub const SS: [(u8, u8); 6] = [(0, 0), (1, 0), (1, 1), (0, 1), (2, 0), (2, 2)];

fn hx(x: f32) -> String { format!("{:08x}", x.to_bits()) }
fn hx64(x: f64) -> String { format!("{:016x}", x.to_bits()) }
fn ulp_nbrs(x: f32) -> Vec<f32> {
    let b = x.to_bits() as i64;
    (-2..=2).map(|d| f32::from_bits((b + d).clamp(0, 0xffff_ffff) as u32)).collect()
}

/// structured + random floats of [0,1]: thresholds of every curve with neighbours, binade edges, subnormals
pub fn unit_floats(r: &mut Rng, n: usize) -> Vec<f32> {
    // the negative zero is a value of [0, 1] too (its sign bit must not leak into any curve)
    let mut v: Vec<f32> = vec![-0.0, -0.0, -0.0];
    let thr: [f32; 24] = [0.0, 1.0, 0.5, 1.0 / 12.0, 0.01, 0.003_162_277_6, 0.018_053_97, 4.5 * 0.018_053_97, 0.003_041_282_5, 12.92 * 0.003_041_282_5,
        0.04045, 0.0031308, 0.081, 0.25, 0.75, 0.1, 0.9, 1e-3, 1e-5, 1e-10, 1e-20, 1e-38, 0.999, 0.5599107];
    for t in thr { for x in ulp_nbrs(t) { if x >= 0.0 && x <= 1.0 { v.push(x); } } }
    for e in 1..=126u32 { let b = (127 - e) << 23; v.push(f32::from_bits(b)); v.push(f32::from_bits(b - 1)); v.push(f32::from_bits(b + 1)); }
    v.push(f32::from_bits(1)); v.push(f32::from_bits(0x007fffff)); v.push(f32::from_bits(0x00800000));
    while v.len() < n {
        match r.below(5) {
            0 => v.push(f32::from_bits(r.below(0x3f80_0001) as u32)),      // uniform in bits
            1 => v.push(r.unit() * r.unit()),
            4 => v.push(1.0 - r.unit() * 0.003),                            // highlights: the steep end of PQ, cancellation in its denominator
            _ => v.push(r.unit()),                                          // uniform in value
        }
    }
    v.truncate(n.max(200));
    v
}

pub fn any_floats(r: &mut Rng, n: usize) -> Vec<f32> {
    let mut v: Vec<f32> = SPECIALS.iter().map(|b| f32::from_bits(*b)).collect();
    for x in [4.22e37f32, 4.23e37, 2.4e38, 88.0, 89.0, -88.0, -87.0, 128.0, 129.0, -126.0, -127.0, -150.0, 1e-40, 1e30, -1e30, 1.5, -0.25, 2.0] { v.push(x); }
    while v.len() < n {
        match r.below(3) { 0 => v.push(f32::from_bits(r.next() as u32)), 1 => v.push(r.range(-2.0, 3.0)), _ => v.push(r.unit()) }
    }
    v
}

fn codes_for(r: &mut Rng, bd: u32, full: bool, n: usize) -> Vec<[u32; 3]> {
    let max = (1u32 << bd) - 1;
    let k = 1u32 << (bd - 8);
    let mut c: Vec<u32> = vec![0, 1, max / 2, max / 2 + 1, max / 2 + 2, max - 1, max, 16 * k, 16 * k + 1, (16 * k).saturating_sub(1), 235 * k, 235 * k + 1, 240 * k, 240 * k + 1, 128 * k];
    c.retain(|x| *x <= max);
    let _ = full;
    let mut out = Vec::new();
    for a in &c { out.push([*a, max / 2 + 1, max / 2 + 1]); out.push([max / 2 + 1, *a, max / 2 + 1]); out.push([max / 2 + 1, max / 2 + 1, *a]); out.push([*a, *a, *a]); }
    for a in [0, max] { for b in [0, max] { for d in [0, max] { out.push([a, b, d]); } } }
    while out.len() < n { out.push([r.below(max as u64 + 1) as u32, r.below(max as u64 + 1) as u32, r.below(max as u64 + 1) as u32]); }
    out
}

fn each_yuv_cfg(mut f: impl FnMut(u32, &str, u32, u32)) {
    // (ts, matrix, full, bd)
    for m in STD7 { for full in 0..2 { for bd in 8..=16u32 { f(2, m, full, bd); if bd == 8 { f(1, m, full, bd); } } } }
}

pub fn gen(prop: &str, seed: u64, tier: u32) -> Vec<String> {
    let mut r = Rng::new(seed ^ crate::extract::fnv(prop));
    let mut out: Vec<String> = Vec::new();
    let scale = if tier == 0 { 1 } else { 8 };
    match prop {
        "C01" | "C08" | "C16" => {
            let op = if prop == "C08" { "rt" } else { "dec" };
            each_yuv_cfg(|ts, m, full, bd| {
                let p = "BT709";
                if prop == "C16" {
                    let max = (1u32 << bd) - 1;
                    let mid = 1u32 << (bd - 1);
                    let step = if bd <= 10 || tier == 1 { 1 } else { 1 + (max / 1500) };
                    let mut y = 0; while y <= max { out.push(format!("dec {} {} {} {} {} {} {} {}", ts, m, p, full, bd, y, mid, mid)); y += step; }
                    out.push(format!("dec {} {} {} {} {} {} {} {}", ts, m, p, full, bd, max, mid, mid));
                } else {
                    // a standard matrix must ignore the primaries (and the transfer): vary the primaries tag over all 14 values
                    let pn = CPS[r.below(14) as usize].0;
                    for c in codes_for(&mut r, bd, full == 1, 100 * scale) { out.push(format!("{} {} {} {} {} {} {} {} {}", op, ts, m, pn, full, bd, c[0], c[1], c[2])); }
                }
            });
            if prop == "C16" {
                for t in TC14 { for x in [0.0f32, 1.0] { out.push(format!("tf lin {} {} {} {}", t, hx(x), hx(x), hx(x))); out.push(format!("tf gam {} {} {} {}", t, hx(x), hx(x), hx(x))); } }
                for i in 0..(400 * scale) { let v = if i < 3 { [0.0, 1.0, 0.5][i] } else { r.unit() };
                    for p in CP11 { if i % 8 == 0 || p == "BT2020" { out.push(format!("prim to709 {} {} {} {}", p, hx(v), hx(v), hx(v))); out.push(format!("prim from709 {} {} {} {}", p, hx(v), hx(v), hx(v))); } }
                    out.push(format!("xyb {} {} {}", hx(v), hx(v), hx(v))); out.push(format!("hsl {} {} {}", hx(v), hx(v), hx(v))); }
            }
        }
        "C02" => {
            each_yuv_cfg(|ts, m, full, bd| {
                for i in 0..(60 * scale) {
                    let px: [f32; 3] = match i % 6 {
                        0 => [r.unit(), r.unit(), r.unit()],
                        1 => [r.range(-0.5, 1.5), r.range(-0.5, 1.5), r.range(-0.5, 1.5)],
                        2 => { // grey landing next to a half-integer luma code
                            let max = ((1u32 << bd) - 1) as f64; let k = (1u32 << (bd - 8)) as f64;
                            let c = r.below(1u64 << bd) as f64 + 0.5;
                            let v = if full == 1 { c / max } else { (c - 16.0 * k) / (219.0 * k) };
                            let v = f32::from_bits(((v as f32).to_bits() as i64 + r.below(5) as i64 - 2).max(0) as u32); [v, v, v] }
                        3 => { let c = [-0.5f32, 0.0, 1.0, 1.5, 0.5]; [*r.pick(&c), *r.pick(&c), *r.pick(&c)] }
                        4 => { let v = r.range(-0.5, 1.5); [v, v, v] }
                        _ => [r.unit(), 0.0, r.unit()],
                    };
                    out.push(format!("enc {} {} BT709 {} {} {} {} {}", ts, m, full, bd, hx(px[0]), hx(px[1]), hx(px[2])));
                }
            });
        }
        "C03" | "C10" => {
            for t in TCS.iter().map(|x| x.0) {
                let sup = TC14.contains(&t);
                let xs = if sup { unit_floats(&mut r, 1800 * scale) } else { vec![0.25, 0.5, 1.0] };
                for ch in xs.chunks(3) { if ch.len() == 3 {
                    out.push(format!("tf lin {} {} {} {}", t, hx(ch[0]), hx(ch[1]), hx(ch[2])));
                    out.push(format!("tf gam {} {} {} {}", t, hx(ch[0]), hx(ch[1]), hx(ch[2]))); } }
            }
        }
        "C04" | "C05" => {
            for i in 0..(6000 * scale) {
                let p: [f32; 3] = match i % 8 {
                    0 => [r.unit() * 1e-4, r.unit() * 1e-4, r.unit() * 1e-4],
                    1 => [r.unit() * 0.01, r.unit() * 0.01, r.unit() * 0.01],
                    2 | 3 => [r.unit(), r.unit(), r.unit()],
                    4 => [r.range(0.0, 4.0), r.range(0.0, 4.0), r.range(0.0, 4.0)],
                    5 => [r.range(-1.0, 4.0), r.range(-1.0, 4.0), r.range(-1.0, 4.0)],
                    6 => { let v = r.unit(); [v, v, v] }
                    _ => { let c = [0.0f32, 1.0, 4.0, 0.5]; [*r.pick(&c), *r.pick(&c), *r.pick(&c)] }
                };
                out.push(format!("xyb {} {} {}", hx(p[0]), hx(p[1]), hx(p[2])));
                if prop == "C05" || i % 4 == 0 {
                    // XYB-domain inputs: forward transform of the pixel computed by the real code is not available here, so
                    // feed plausible XYB triples: X in [-0.03,0.03], Y,B in [0,1]
                    let q = [r.range(-0.03, 0.03), r.unit() * 0.9, r.unit() * 0.9];
                    out.push(format!("ixyb {} {} {}", hx(q[0]), hx(q[1]), hx(q[2])));
                }
            }
        }
        "C06" => {
            for p in CPS.iter().map(|x| x.0) {
                let n = if CP11.contains(&p) { 300 * scale } else { 2 };
                for i in 0..n {
                    let v: [f32; 3] = match i % 5 { 0 => [1.0, 1.0, 1.0], 1 => { let g = r.unit(); [g, g, g] } 2 => [r.unit(), r.unit(), r.unit()],
                        3 => { let c = [-0.5f32, 0.0, 1.0, 2.0]; [*r.pick(&c), *r.pick(&c), *r.pick(&c)] } _ => [r.range(-0.5, 2.0), r.range(-0.5, 2.0), r.range(-0.5, 2.0)] };
                    out.push(format!("prim to709 {} {} {} {}", p, hx(v[0]), hx(v[1]), hx(v[2])));
                    out.push(format!("prim from709 {} {} {} {}", p, hx(v[0]), hx(v[1]), hx(v[2])));
                }
            }
        }
        "C07" | "C12" | "C11" => {
            geometry_stream(&mut r, prop, tier, &mut out);
            if prop == "C07" {
                for x in any_floats(&mut r, 300 * scale as usize) {
                    out.push(format!("expf {}", hx(x)));
                    let y = *r.pick(&[2.4f32, 0.45, f32::NAN, f32::INFINITY, -1.0, 78.84375, 1e30]);
                    out.push(format!("powf {} {}", hx(x), hx(y)));
                    out.push(format!("powf {} {}", hx(y), hx(x)));
                }
                for t in TC14 { for ch in any_floats(&mut r, 60 * scale as usize).chunks(3) { if ch.len() == 3 {
                    out.push(format!("tf lin {} {} {} {}", t, hx(ch[0]), hx(ch[1]), hx(ch[2])));
                    out.push(format!("tf gam {} {} {} {}", t, hx(ch[0]), hx(ch[1]), hx(ch[2]))); } } }
            }
            if prop == "C12" {
                for len in 0..=40u64 { for w in 0..=12u64 { for h in 0..=12u64 {
                    if (w * h == len) || r.below(40) == 0 { out.push(format!("fnew {} {} {} {}", *r.pick(&["rgb", "lrgb", "xyb", "hsl"]), len, w, h)); } } } }
                for (w, h) in [(1u64 << 32, 1u64 << 32), (1 << 63, 2), (1 << 33, 1 << 31), (u64::MAX, u64::MAX), (u64::MAX, 1), (1 << 32, (1 << 32) + 1)] {
                    for kind in ["rgb", "lrgb", "xyb", "hsl"] { for len in [0u64, 1, 2] { out.push(format!("fnew {} {} {} {}", kind, len, w, h)); } } }
            }
        }
        "C09" => {
            for i in 0..(2500 * scale) {
                let m = *r.pick(&STD7); let t = *r.pick(&TC14);
                let p = loop { let p = *r.pick(&CP11); if p != "ST428" { break p; } };
                let full = r.below(2); let bd = *r.pick(&[8u32, 10, 12, 16]); let ts = if bd == 8 && r.below(2) == 0 { 1 } else { 2 };
                let rgb: [f32; 3] = match i % 5 { 0 => { let g = r.unit(); [g, g, g] } 1 => { let c = [0.0f32, 1.0]; [*r.pick(&c), *r.pick(&c), *r.pick(&c)] }
                    2 => [r.unit() * 0.02, r.unit() * 0.02, r.unit() * 0.02], _ => [r.unit(), r.unit(), r.unit()] };
                // in-gamut codes: encode the RGB pixel with the real code
                let req = format!("enc {} {} {} {} {} {} {} {}", ts, m, p, full, bd, hx(rgb[0]), hx(rgb[1]), hx(rgb[2]));
                let resp = crate::exec::exec_line(&req);
                let c: Vec<&str> = resp.split(' ').collect();
                if c.len() == 4 && c[0] == "ok" { out.push(format!("y2x2y {} {} {} {} {} {} {} {} {}", ts, m, t, p, full, bd, c[1], c[2], c[3])); }
            }
        }
        "C13" => {
            for t in TC14 { for ch in any_floats(&mut r, 240 * scale as usize).chunks(3) { if ch.len() == 3 {
                out.push(format!("tf lin {} {} {} {}", t, hx(ch[0]), hx(ch[1]), hx(ch[2])));
                out.push(format!("tf gam {} {} {} {}", t, hx(ch[0]), hx(ch[1]), hx(ch[2]))); } } }
            for ch in any_floats(&mut r, 900 * scale as usize).chunks(3) { if ch.len() == 3 {
                for op in ["xyb", "ixyb", "hsl", "ihsl"] { out.push(format!("{} {} {} {}", op, hx(ch[0]), hx(ch[1]), hx(ch[2]))); }
                let p = *r.pick(&CP11);
                out.push(format!("prim to709 {} {} {} {}", p, hx(ch[0]), hx(ch[1]), hx(ch[2])));
                out.push(format!("prim from709 {} {} {} {}", p, hx(ch[0]), hx(ch[1]), hx(ch[2])));
                let m = *r.pick(&STD7); let bd = 8 + r.below(9); let ts = if bd == 8 { 1 + r.below(2) } else { 2 };
                out.push(format!("enc {} {} BT709 {} {} {} {} {}", ts, m, r.below(2), bd, hx(ch[0]), hx(ch[1]), hx(ch[2])));
            } }
            for i in 0..(150 * scale) {
                let (ssx, ssy) = *r.pick(&SS); let w = (1 + r.below(6)) << ssx; let h = (1 + r.below(6)) << ssy;
                let bd = 8 + r.below(9); let ts = if bd == 8 { 1 + r.below(2) } else { 2 };
                out.push(format!("yenc {} {} {} {} {} {} BT709 {} {} {} {}", ts, bd, ssx, ssy, r.below(2), *r.pick(&STD7), w, h, r.below(1 << 30), [1, 2, 4][i as usize % 3]));
            }
        }
        "C14" | "C15" => {
            for m in MCS.iter().map(|x| x.0) { for t in TCS.iter().map(|x| x.0) { for p in CPS.iter().map(|x| x.0) {
                let unspec = m == "Unspecified" || t == "Unspecified" || p == "Unspecified";
                if prop == "C14" && !unspec { out.push(format!("meta {} {} {} 2 2", m, t, p)); }
                if prop == "C15" && unspec { out.push(format!("meta {} {} {} 2 2", m, t, p)); }
            } } }
            if prop == "C15" {
                // resolution as a function of the size: u8 planes built by Plane::new, zero-filled
                let ws = [1u32, 2, 4, 479, 480, 488, 576, 720, 1279, 1280, 1281, 1920];
                let hs = [1u32, 2, 4, 479, 480, 481, 487, 488, 489, 575, 576, 577, 720, 1080];
                for m in MCS.iter().map(|x| x.0) { for w in ws { for h in hs {
                    if m == "Unspecified" || r.below(12) == 0 {
                        let t = if r.below(2) == 0 { "Unspecified" } else { "SRGB" }; let p = if r.below(4) != 0 { "Unspecified" } else { "Film" };
                        out.push(format!("ynew 1 8 0 0 0 {} {} {} | n {} {} 0 0 0 0 | n {} {} 0 0 0 0 | n {} {} 0 0 0 0 | fill 0 0", m, t, p, w, h, w, h, w, h));
                    } } } }
            }
        }
        "C17" => {
            for i in 0..(8000 * scale) {
                let mut p = [r.unit(), r.unit(), r.unit()];
                match i % 8 { 0 => { let q = |r: &mut Rng| (r.below(256) as f32) / 255.0; p = [q(&mut r), q(&mut r), q(&mut r)]; }
                    1 => p[1] = p[0], 2 => p[2] = p[0] * (1.0 + 1e-7), 3 => { for c in &mut p { *c *= 1e-3; } } 4 => { for c in &mut p { *c = 1.0 - *c * 1e-3; } }
                    5 => p[1] = 0.0, 6 => { p[0] = 1.0; p[1] = p[2] * (1.0 - 1e-6); } _ => {} }
                for c in &mut p { *c = c.clamp(0.0, 1.0); }
                out.push(format!("hsl {} {} {}", hx(p[0]), hx(p[1]), hx(p[2])));
                let h = match i % 4 { 0 => r.range(0.0, 360.0), 1 => *r.pick(&[0.0f32, 60.0, 120.0, 180.0, 240.0, 300.0, 359.99997, 59.999996, 1e-6]), _ => r.unit() * 360.0 };
                let h = if h >= 360.0 { 0.0 } else { h };
                let sl: [f32; 2] = match i % 5 { 0 => [r.unit(), 0.0], 1 => [r.unit(), 1.0], 2 => [1.0, r.unit()], _ => [r.unit(), r.unit()] };
                out.push(format!("ihsl {} {} {}", hx(h), hx(sl[0]), hx(sl[1])));
            }
        }
        "C18" => {
            for e in 1..=254u32 { for m in [0u32, 1, 0x7fffff, 0x400000, 0x2aaaaa, 0x555555] { for s in [0u32, 0x8000_0000] { out.push(format!("cbrtf {:08x}", s | (e << 23) | m)); } } }
            for _ in 0..(4000 * scale) { out.push(format!("cbrtf {:08x}", ((1 + r.below(254)) << 23 | r.below(1 << 23) | (r.below(2) << 31)) as u32)); }
            for x in any_floats(&mut r, 200) { out.push(format!("cbrtf {}", hx(x))); out.push(format!("expf {}", hx(x))); }
            for _ in 0..(4000 * scale) { let x = match r.below(3) { 0 => r.range(-85.0, 85.0), 1 => r.range(-100.0, 100.0), _ => r.range(-1.0, 1.0) }; out.push(format!("expf {}", hx(x))); }
            for x in [88.0f32, 88.7, 88.8, 89.0, 100.0, 1e38, -87.0, -87.4, -88.0, -100.0, -1e38, 85.0, -85.0] { for y in ulp_nbrs(x) { out.push(format!("expf {}", hx(y))); } }
            let ys = [2.4f32, 1.0 / 2.4, 2.2, 1.0 / 2.2, 2.8, 1.0 / 2.8, 0.45, 1.0 / 0.45, 0.159_301_76, 78.84375, 1.0 / 78.84375, 1.0 / 0.159_301_76, 1.0, 0.0, -1.0, 80.0, -80.0, 0.5, 3.0];
            for _ in 0..(6000 * scale) {
                let y = if r.below(3) == 0 { r.range(-80.0, 80.0) } else { *r.pick(&ys) };
                let x = match r.below(4) { 0 => f32::from_bits(((1 + r.below(254)) << 23 | r.below(1 << 23)) as u32), 1 => r.unit(), 2 => r.range(0.5, 2.0), _ => r.range(0.0, 100.0) };
                out.push(format!("powf {} {}", hx(x), hx(y)));
            }
            for x in any_floats(&mut r, 100) { for y in [f32::NAN, f32::INFINITY, 2.4, 0.0] { out.push(format!("powf {} {}", hx(x), hx(y))); out.push(format!("powf {} {}", hx(y), hx(x))); } }
        }
        "C19" => {
            let ops = [("inv", 9), ("tr", 9), ("mulv", 12), ("mulm", 18), ("idmul", 9), ("mulid", 9), ("cross", 6), ("dot", 6), ("sdiv", 4), ("cmul", 6)];
            for _ in 0..(1500 * scale) {
                for (op, n) in ops {
                    // every 3x3 operand gets its own structure class (random, diagonal, permutation, shear, triangular, sparse mask, colour, small integers)
                    let mut vals: Vec<f64> = Vec::new();
                    while vals.len() + 9 <= n { vals.extend(structured_matrix(&mut r)); }
                    while vals.len() < n {
                        let v = match r.below(4) { 0 => *r.pick(&[-2.0f64, -1.0, 0.0, 1.0, 2.0, 0.5]), 1 => (r.range(-2.0, 2.0) as f64 * 1024.0).round() / 1024.0, _ => r.range(-2.0, 2.0) as f64 };
                        vals.push(v);
                    }
                    if op == "sdiv" && vals[3].abs() < 0.01 { continue; }
                    out.push(format!("m32 {} {}", op, vals.iter().map(|v| hx(*v as f32)).collect::<Vec<_>>().join(" ")));
                    out.push(format!("m64 {} {}", op, vals.iter().map(|v| hx64(*v)).collect::<Vec<_>>().join(" ")));
                }
            }
        }
        "C20" => {
            // the numeric streams of the other properties, reduced, replayed against every build
            for p in ["C01", "C02", "C03", "C04", "C06", "C08", "C18", "C17"] {
                let v = gen(p, seed, 0);
                let stride = (v.len() / 1500).max(1);
                out.extend(v.into_iter().step_by(stride));
            }
        }
        _ => {}
    }
    out
}

/// a 3x3 matrix (row-major) with entries in [-2,2] drawn from one of several structure classes
pub fn structured_matrix(r: &mut Rng) -> Vec<f64> {
    let mut m = vec![0.0f64; 9];
    let rnd = |r: &mut Rng| r.range(-2.0, 2.0) as f64;
    match r.below(10) {
        0 | 1 => for v in m.iter_mut() { *v = rnd(r); },
        2 => for k in 0..3 { m[k * 4] = if r.below(2) == 0 { r.range(0.8, 2.0) as f64 } else { -(r.range(0.8, 2.0) as f64) }; },              // diagonal
        3 => { let perms = [[0, 1, 2], [0, 2, 1], [1, 0, 2], [1, 2, 0], [2, 0, 1], [2, 1, 0]]; let p = perms[r.below(6) as usize]; for k in 0..3 { m[k * 3 + p[k]] = 1.0; } }
        4 => { for k in 0..3 { m[k * 4] = 1.0; } let offs = [1usize, 2, 3, 5, 6, 7]; let n = 1 + r.below(2); for _ in 0..n { m[offs[r.below(6) as usize]] = rnd(r); } }   // shear(s)
        5 => { let upper = r.below(2) == 0; for i in 0..3 { for j in 0..3 { if (upper && j >= i) || (!upper && j <= i) { m[i * 3 + j] = rnd(r); } } } }   // triangular
        6 => { for v in m.iter_mut() { if r.below(3) != 0 { *v = rnd(r); } } }                                                                  // random zero mask
        7 => { let c = [0.2126, 0.7152, 0.0722, -0.1146, -0.3854, 0.5, 0.5, -0.4542, -0.0458]; for k in 0..9 { m[k] = c[k] + (r.unit() as f64 - 0.5) * 1e-3; } }
        8 => { let c = [0.25, 0.5, 0.25, -0.25, 0.5, -0.25, 0.5, 0.0, -0.5]; for k in 0..9 { m[k] = c[k]; } }                                   // YCgCo
        _ => for v in m.iter_mut() { *v = *r.pick(&[-2.0f64, -1.0, 0.0, 1.0, 2.0, 0.5]); },
    }
    m
}

fn plane_n(w: u64, h: u64, xd: u64, yd: u64, xp: u64, yp: u64) -> String { format!("n {} {} {} {} {} {}", w, h, xd, yd, xp, yp) }

fn geometry_stream(r: &mut Rng, prop: &str, tier: u32, out: &mut Vec<String>) {
    let n = if tier == 0 { 700 } else { 6000 };
    let big = [63u64, 64, 65, 128];
    for i in 0..n {
        let ts = 1 + r.below(2);
        let bd = if ts == 1 { 8 } else { 8 + r.below(9) };
        let (ssx, ssy) = *r.pick(&SS);
        let full = r.below(2);
        let maxcode = (1u64 << bd) - 1;
        let (mut w, mut h) = if prop == "C11" { (1 + r.below(64), 1 + r.below(if tier == 0 { 24 } else { 64 })) } else if r.below(12) == 0 { (*r.pick(&big), 1 + r.below(12)) } else { (1 + r.below(12), 1 + r.below(12)) };
        let wellformed = prop == "C11" || r.below(3) != 0;
        if wellformed { w = ((w >> ssx).max(1)) << ssx; h = ((h >> ssy).max(1)) << ssy; }
        let (lxp, lyp, cxp, cyp) = (r.below(if prop == "C11" { 33 } else { 18 }), r.below(if prop == "C11" { 33 } else { 18 }), r.below(18), r.below(18));
        let m = *r.pick(&STD7);
        let head = format!("{} {} {} {} {} {} BT1886 BT709", ts, bd, ssx, ssy, full, m);
        let (cw, ch, cxd, cyd) = if wellformed { (w >> ssx, h >> ssy, ssx as u64, ssy as u64) } else {
            // independent chroma geometry
            let cw = match r.below(4) { 0 => w >> ssx, 1 => 1 + r.below(12), 2 => (w >> ssx).max(1) - r.below(2).min((w >> ssx).max(1) - 1), _ => w };
            let ch = match r.below(4) { 0 => h >> ssy, 1 => 1 + r.below(12), 2 => (h >> ssy) + 1, _ => h };
            (cw, ch, if r.below(3) == 0 { r.below(3) } else { ssx as u64 }, if r.below(3) == 0 { r.below(3) } else { ssy as u64 })
        };
        let y = plane_n(w, h, 0, 0, lxp, lyp);
        let u = plane_n(cw, ch, cxd, cyd, cxp, cyp);
        // the V plane gets its own padding (hence its own stride and origin): U and V need not share a layout
        let (vxp, vyp) = if r.below(3) == 0 { (cxp, cyp) } else { (*r.pick(&[0u64, 1, 8, 17, 33, 64, 70]), r.below(18)) };
        // ... nor a decimation: in the malformed half the V plane's xdec/ydec are drawn independently of U's one time in three
        // (a frame whose chroma planes have the right sizes and a correct U but a wrong V decimation must be rejected, and one whose
        // V is right and U wrong as well)
        let (vxd, vyd) = if !wellformed && r.below(3) == 0 { match r.below(3) { 0 => (ssx as u64, ssy as u64), 1 => (r.below(3), cyd), _ => (cxd, r.below(3)) } } else { (cxd, cyd) };
        let v = if wellformed || r.below(2) == 0 { plane_n(cw, ch, vxd, vyd, vxp, vyp) } else { plane_n(cw + r.below(2), ch, vxd, vyd, vxp, vyp) };
        // one out-of-range sample now and then (16-bit storage below 16 bit): poke a buffer index
        let mut fill = format!("fill {} {}", r.below(1 << 30), maxcode);
        if ts == 2 && bd < 16 && r.below(3) == 0 {
            // boundary values first: 2^n itself, 2^n+1, the type maximum, then anything above
            let val = match r.below(4) { 0 => maxcode + 1, 1 => maxcode + 2, 2 => 65535, _ => maxcode + 1 + r.below(65535 - maxcode) };
            // aim at a visible sample most of the time (Plane::new: stride and xorigin are multiples of 32 samples for u16)
            let (pi, pw, ph, xp, yp) = match r.below(3) { 0 => (0, w, h, lxp, lyp), 1 => (1, cw, ch, cxp, cyp), k => (k, cw, ch, vxp, vyp) };
            let al = |x: u64| (x + 31) / 32 * 32;
            let idx = if r.below(4) != 0 && pw > 0 && ph > 0 { (yp + r.below(ph)) * al(al(xp) + pw + xp) + al(xp) + r.below(pw) } else { r.below(4000) };
            fill.push_str(&format!(" poke {} {} {}", pi, idx, val));
        }
        let line = format!("{} | {} | {} | {} | {}", head, y, u, v, fill);
        if prop == "C12" || prop == "C07" { out.push(format!("ynew {}", line)); }
        if prop != "C12" { out.push(format!("ydec {}", line)); }
        if prop == "C11" || prop == "C07" {
            if i % 2 == 0 { out.push(format!("yenc {} {} {} {} {} {} BT709 {} {} {} {}", ts, bd, ssx, ssy, full, m, w, h, r.below(1 << 30), if prop == "C07" { 4 } else { 0 })); }
        }
    }
    if prop == "C07" || prop == "C12" {
        // malformed stream: raw planes whose config does not fit their buffer (all fields of Plane/PlaneConfig are public)
        for _ in 0..(if tier == 0 { 300 } else { 3000 }) {
            let ts = 1 + r.below(2); let bd = if ts == 1 { 8 } else { *r.pick(&[8u64, 10, 16]) };
            let (ssx, ssy) = *r.pick(&SS);
            let w = (1 + r.below(6)) << ssx; let h = (1 + r.below(6)) << ssy;
            let raw = |r: &mut Rng, w: u64, h: u64, xd: u64, yd: u64| {
                let stride = match r.below(4) { 0 => w, 1 => w + r.below(8), 2 => w.saturating_sub(1).max(1), _ => 64 };
                let xo = r.below(3); let yo = r.below(3);
                let need = (yo + h - 1) * stride + xo + w;
                let len = match r.below(5) { 0 => need, 1 => need + r.below(10), 2 => need.saturating_sub(1 + r.below(3)), 3 => r.below(need + 1), _ => stride * (h + yo) + xo };
                format!("r {} {} {} {} {} {} 0 0 {} {} {}", stride, h + yo, w, h, xd, yd, xo, yo, len)
            };
            let y = if r.below(3) == 0 { raw(r, w, h, 0, 0) } else { plane_n(w, h, 0, 0, 0, 0) };
            let cw = if r.below(4) == 0 { 1 } else { w >> ssx }; let ch = if r.below(4) == 0 { 1 } else { h >> ssy };
            // chroma planes with the right sample count but the wrong shape (transposed, or w*k x h/k): a validation that
            // compares areas instead of dimensions accepts them, and decoding then runs past the last chroma row
            let (cw, ch) = match r.below(5) {
                0 => (h >> ssy, w >> ssx),
                1 => { let (a, b) = (w >> ssx, h >> ssy); let k = *r.pick(&[2u64, 3, 4]); if b % k == 0 { (a * k, b / k) } else if a % k == 0 { (a / k, b * k) } else { (a * b, 1) } }
                _ => (cw, ch) };
            let u = if r.below(2) == 0 { raw(r, cw, ch, ssx as u64, ssy as u64) } else { plane_n(cw, ch, ssx as u64, ssy as u64, 0, 0) };
            // one frame in six: everything right except the decimation of exactly one chroma plane
            let (uxd, uyd, vxd, vyd) = match r.below(12) { 0 => ((ssx as u64 + 1) % 3, ssy as u64, ssx as u64, ssy as u64), 1 => (ssx as u64, ssy as u64, (ssx as u64 + 1) % 3, ssy as u64),
                2 => (ssx as u64, ssy as u64, ssx as u64, (ssy as u64 + 1) % 3), 3 => (ssx as u64, (ssy as u64 + 2) % 3, ssx as u64, ssy as u64), _ => (ssx as u64, ssy as u64, ssx as u64, ssy as u64) };
            let u = if (uxd, uyd) != (ssx as u64, ssy as u64) { plane_n(cw, ch, uxd, uyd, 0, 0) } else { u };
            let v = if (vxd, vyd) != (ssx as u64, ssy as u64) { plane_n(cw, ch, vxd, vyd, 0, 0) } else if r.below(2) == 0 { raw(r, cw, ch, ssx as u64, ssy as u64) } else { plane_n(cw, ch, ssx as u64, ssy as u64, 0, 0) };
            let line = format!("{} {} {} {} 0 BT709 BT1886 BT709 | {} | {} | {} | fill {} {}", ts, bd, ssx, ssy, y, u, v, r.below(1 << 20), (1u64 << bd) - 1);
            out.push(format!("ynew {}", line));
            if prop == "C07" { out.push(format!("ydec {}", line)); }
        }
        // the defect frames of DESIGN section 2 (D2): luma 4x4 with 1x1 chroma planes at 4:2:0
        out.push("ynew 1 8 1 1 0 BT709 BT1886 BT709 | n 4 4 0 0 0 0 | n 1 1 1 1 0 0 | n 1 1 1 1 0 0 | fill 1 255".into());
        out.push("ydec 1 8 1 1 0 BT709 BT1886 BT709 | n 4 4 0 0 0 0 | n 1 1 1 1 0 0 | n 1 1 1 1 0 0 | fill 1 255".into());
        out.push("yenc 1 8 1 1 0 BT709 BT709 3 3 5 0".into());
        out.push("yenc 2 10 1 0 1 BT709 BT709 5 2 5 0".into());
        // flat-index shortcuts: 4:4:4 frames whose luma rows are tightly packed (stride == width) while each chroma plane has its
        // own stride - overlapping rows (stride 1, stride w-1: the buffer is shorter than w*h) or wider rows (stride w+3)
        for (w, h) in [(4u64, 4u64), (8, 3), (5, 7), (64, 2)] { for cs in [1u64, w - 1, w + 3] { for ts in [1u64, 2] {
            let yl = format!("r {} {} {} {} 0 0 0 0 0 0 {}", w, h, w, h, w * h);
            let cl = format!("r {} {} {} {} 0 0 0 0 0 0 {}", cs, h, w, h, (h - 1) * cs + w);
            let line = format!("{} 8 0 0 0 BT709 BT1886 BT709 | {} | {} | {} | fill 9 255", ts, yl, cl, cl);
            out.push(format!("ynew {}", line));
            if prop == "C07" { out.push(format!("ydec {}", line)); }
        } } }
        // D9: rows may overlap (a stride below the width, here 0), so the buffer length does not bound width * height;
        // the product the decoder allocates must not wrap. (2 x 2^63 and 4 x 2^62 wrap, 3 x 2^62 does not; the small
        // stride-0 frames are legal and decode row 0 repeatedly.) u8 storage only: no sample scan over 2^62 rows.
        let d9 = |w: u64, h: u64, len: u64| format!("r 0 {} {} {} 0 0 0 0 0 0 {}", h, w, h, len);
        for (w, h, dec) in [(2u64, 1u64 << 63, true), (4, 1 << 62, true), (1 << 32, 1 << 32, true), (3, 1 << 62, false), (2, 5, true), (4, 3, true)] {
            let pl = d9(w, h, w.min(8));
            let line = format!("1 8 0 0 0 BT709 BT1886 BT709 | {} | {} | {} | fill 7 255", pl, pl, pl);
            out.push(format!("ynew {}", line));
            if dec && prop == "C07" { out.push(format!("ydec {}", line)); }
        }
    }
}
